// Package run is the shared driver of polycheck (and of the per-property dev binaries).
package run

import (
	"flag"
	"fmt"
	"os"
	"path/filepath"
	"runtime/debug"
	"strconv"
	"strings"

	"polycheck/load"
	"polycheck/ob"
	"polycheck/props"
)

// Main parses flags, loads /repo and runs one registered property.
func Main() {
	prop := flag.String("property", "", "property id (C01…)")
	tier := flag.String("tier", "", "quick|thorough (default: $VERIF_TIER or quick)")
	repo := flag.String("repo", "/repo", "repository root")
	verif := flag.String("verif", "", "verif dir (default: parent of the binary's dir)")
	explain := flag.String("explain", "", "print a replay file")
	list := flag.Bool("list", false, "list properties")
	noControls := flag.Bool("no-controls", false, "skip positive-control overlays")
	mutant := flag.String("mutant", "", "(internal) run the property on one catalogue mutant applied as an in-memory overlay and print MUTANT-RESULT")
	noSelftest := flag.Bool("no-selftest", false, "thorough tier: skip the overlay self-validation")
	flag.Parse()

	if *list {
		for _, id := range props.IDs() {
			fmt.Println(id)
		}
		return
	}
	if *explain != "" {
		b, err := os.ReadFile(*explain)
		if err != nil {
			fmt.Println(err)
			os.Exit(2)
		}
		os.Stdout.Write(b)
		fmt.Println()
		return
	}
	if *tier == "" {
		*tier = os.Getenv("VERIF_TIER")
	}
	if *tier != "thorough" {
		*tier = "quick"
	}
	if *verif == "" {
		exe, _ := os.Executable()
		*verif = filepath.Dir(filepath.Dir(exe))
	}
	seed := 0
	if s := os.Getenv("VERIF_SEED"); s != "" {
		seed, _ = strconv.Atoi(s)
	}
	p := props.Get(*prop)
	if p == nil {
		fmt.Printf("unknown property %q (have %s)\n", *prop, strings.Join(props.IDs(), ","))
		os.Exit(2)
	}
	if *mutant != "" {
		os.Exit(runMutant(p, *repo, *verif, *mutant))
	}
	run := ob.NewRun(p.ID, *tier, seed, *verif)
	run.Explanation = p.Explanation
	for _, a := range p.Assumptions {
		run.Assume(a)
	}
	run.Assume("the Go type checker and go/ssa builder (golang.org/x/tools v0.29.0) represent the program faithfully")
	run.Assume("only /repo's source is inspected; nothing is executed; integer overflow and floating-point rounding are not modelled")

	configs := [][2]string{{"", ""}}
	if *tier == "thorough" {
		// js/wasm cannot be loaded offline: generator/app_wasm.go imports a module that is not in the cache.
		// linux/386 cannot be type-checked either: the dependency EliCDavis/iter assigns math.MaxInt64 to an int.
		configs = [][2]string{{"linux", "amd64"}, {"windows", "amd64"}, {"darwin", "arm64"}}
	}
	for i, cfg := range configs {
		name := "host"
		if cfg[0] != "" {
			name = cfg[0] + "/" + cfg[1]
		}
		run.Configs = append(run.Configs, name)
		run.CurConfig = name
		lc := load.Config{Repo: *repo, GOOS: cfg[0], GOARCH: cfg[1], Instantiate: *tier == "thorough"}
		if p.Controls != nil && !*noControls {
			lc.Overlay = map[string][]byte{}
			lc.ControlFiles = map[string]bool{}
			for rel, src := range p.Controls() {
				abs := filepath.Join(*repo, rel)
				lc.Overlay[abs] = []byte(src)
				lc.ControlFiles[abs] = true
			}
		}
		prog, err := load.Load(lc)
		if err != nil {
			run.Failf("config %s: cannot load /repo: %v", name, err)
			continue
		}
		for _, n := range prog.Notes {
			run.Note("config %s: %s", name, n)
		}
		if i == 0 {
			run.Extra["packages_loaded"] = len(prog.Pkgs)
		}
		func() {
			defer func() {
				if e := recover(); e != nil {
					run.Failf("config %s: analyser panic: %v\n%s", name, e, debug.Stack())
				}
			}()
			p.Run(&props.Ctx{P: prog, R: run, Tier: *tier})
		}()
		if i > 0 {
			// floors are per configuration; scale once
		}
	}
	// floors apply per configuration
	if len(configs) > 1 {
		for k, v := range run.Floors {
			run.Floors[k] = v * len(configs)
		}
	}
	if *tier == "thorough" && !*noSelftest {
		selftest(run, p.ID, *repo, *verif, seed)
	}
	os.Exit(run.Finish())
}
