package run

// Overlay self-validation (DESIGN.md §2.4, §7): a catalogue of source mutants and of
// behaviour-preserving refactorings per property, applied in memory through
// packages.Config.Overlay (nothing is written to /repo), each analysed in its own
// process. A seeded mutant the rules miss, or a refactoring they flag, is recorded in
// the evidence (selftest) — it is a statement about the checker, never a property
// violation. Catalogue entries are located by a text fragment of today's source; an
// entry whose fragment no longer occurs is reported as stale and skipped.

import (
	"bufio"
	"bytes"
	"encoding/json"
	"fmt"
	"os"
	"os/exec"
	"path/filepath"
	"runtime/debug"
	"sort"
	"strings"
	"sync"

	"polycheck/load"
	"polycheck/ob"
	"polycheck/props"
)

// Mutant is one catalogue entry.
type Mutant struct {
	Name    string   `json:"name"`
	Kind    string   `json:"kind"` // "mutant" (must be reported) or "refactor" (must stay silent)
	File    string   `json:"file"` // module-relative
	Find    string   `json:"find"`
	Replace string   `json:"replace"`
	Edits   []Edit   `json:"edits,omitempty"` // further edits (same or other files)
	Expect  []string `json:"expect,omitempty"` // rule ids, any of which must fire (mutant); empty = any rule
	Note    string   `json:"note,omitempty"`
}

type Edit struct {
	File    string `json:"file"`
	Find    string `json:"find"`
	Replace string `json:"replace"`
}

func catalogue(verif, prop string) ([]Mutant, error) {
	b, err := os.ReadFile(filepath.Join(verif, "checker", "mutants", strings.ToLower(prop)+".json"))
	if err != nil {
		if os.IsNotExist(err) {
			return nil, nil
		}
		return nil, err
	}
	var ms []Mutant
	if err := json.Unmarshal(b, &ms); err != nil {
		return nil, err
	}
	return ms, nil
}

func (m Mutant) overlay(repo string) (map[string][]byte, string) {
	edits := append([]Edit{{m.File, m.Find, m.Replace}}, m.Edits...)
	out := map[string][]byte{}
	for _, e := range edits {
		abs := filepath.Join(repo, e.File)
		src, ok := out[abs]
		if !ok {
			b, err := os.ReadFile(abs)
			if err != nil {
				return nil, "file missing: " + e.File
			}
			src = b
		}
		if !bytes.Contains(src, []byte(e.Find)) {
			return nil, "fragment no longer present in " + e.File
		}
		out[abs] = bytes.Replace(src, []byte(e.Find), []byte(e.Replace), 1)
	}
	return out, ""
}

// runMutant: child process. Prints one line MUTANT-RESULT <json>.
func runMutant(p *props.Prop, repo, verif, name string) int {
	type result struct {
		Name    string   `json:"name"`
		Status  string   `json:"status"` // stale | nocompile | ran
		Reports []string `json:"reports"`
		Detail  string   `json:"detail,omitempty"`
	}
	emit := func(r result) int {
		b, _ := json.Marshal(r)
		fmt.Println("MUTANT-RESULT " + string(b))
		return 0
	}
	ms, err := catalogue(verif, p.ID)
	if err != nil {
		return emit(result{Name: name, Status: "stale", Detail: err.Error()})
	}
	var m *Mutant
	for i := range ms {
		if ms[i].Name == name {
			m = &ms[i]
		}
	}
	if m == nil {
		return emit(result{Name: name, Status: "stale", Detail: "not in catalogue"})
	}
	ov, why := m.overlay(repo)
	if ov == nil {
		return emit(result{Name: name, Status: "stale", Detail: why})
	}
	lc := load.Config{Repo: repo, Overlay: ov}
	prog, err := load.Load(lc)
	if err != nil {
		return emit(result{Name: name, Status: "nocompile", Detail: firstLines(err.Error(), 3)})
	}
	r := ob.NewRun(p.ID, "quick", 0, verif)
	func() {
		defer func() {
			if e := recover(); e != nil {
				r.Failf("analyser panic: %v\n%s", e, debug.Stack())
			}
		}()
		p.Run(&props.Ctx{P: prog, R: r, Tier: "quick"})
	}()
	res := result{Name: name, Status: "ran"}
	known := r.KnownKeys()
	for _, o := range r.Obs {
		if o.Control || o.Verdict == ob.Holds {
			continue
		}
		if known[o.Rule+"\x00"+o.Construct] {
			continue
		}
		res.Reports = append(res.Reports, o.Rule+" "+o.Construct)
	}
	for _, f := range r.Fatal {
		res.Reports = append(res.Reports, "MACHINERY "+firstLines(f, 1))
	}
	sort.Strings(res.Reports)
	return emit(res)
}

func firstLines(s string, n int) string {
	lines := strings.Split(s, "\n")
	if len(lines) > n {
		lines = lines[:n]
	}
	return strings.Join(lines, " | ")
}

// selftest: parent side, thorough tier.
func selftest(run *ob.Run, prop, repo, verif string, seed int) {
	ms, err := catalogue(verif, prop)
	if err != nil {
		run.Note("selftest: catalogue unreadable: %v", err)
		return
	}
	if len(ms) == 0 {
		run.Extra["selftest"] = map[string]any{"catalogue": 0}
		return
	}
	// reports on the unchanged tree (baseline) are not attributed to a mutant
	base := map[string]bool{}
	for _, o := range run.Obs {
		if !o.Control && o.Verdict != ob.Holds {
			base[o.Rule+" "+o.Construct] = true
		}
	}
	exe, _ := os.Executable()
	type outcome struct {
		m       Mutant
		status  string
		reports []string
		detail  string
	}
	outs := make([]outcome, len(ms))
	sem := make(chan struct{}, 6)
	var wg sync.WaitGroup
	for i, m := range ms {
		wg.Add(1)
		go func(i int, m Mutant) {
			defer wg.Done()
			sem <- struct{}{}
			defer func() { <-sem }()
			cmd := exec.Command(exe, "-property", prop, "-repo", repo, "-verif", verif, "-mutant", m.Name)
			cmd.Env = os.Environ()
			out, _ := cmd.Output()
			o := outcome{m: m, status: "error"}
			sc := bufio.NewScanner(bytes.NewReader(out))
			sc.Buffer(make([]byte, 1<<20), 1<<24)
			for sc.Scan() {
				line := sc.Text()
				if strings.HasPrefix(line, "MUTANT-RESULT ") {
					var r struct {
						Status  string   `json:"status"`
						Reports []string `json:"reports"`
						Detail  string   `json:"detail"`
					}
					if json.Unmarshal([]byte(strings.TrimPrefix(line, "MUTANT-RESULT ")), &r) == nil {
						o.status, o.reports, o.detail = r.Status, r.Reports, r.Detail
					}
				}
			}
			outs[i] = o
		}(i, m)
	}
	wg.Wait()
	killed, missed, stale, nocompile, refOK, refBad, mutants, refactors := 0, 0, 0, 0, 0, 0, 0, 0
	var missedNames, flaggedRefactors, staleNames []string
	var samples []any
	for _, o := range outs {
		var newReports []string
		for _, r := range o.reports {
			if !base[r] {
				newReports = append(newReports, r)
			}
		}
		isRef := o.m.Kind == "refactor"
		if isRef {
			refactors++
		} else {
			mutants++
		}
		switch o.status {
		case "stale", "error":
			stale++
			staleNames = append(staleNames, o.m.Name+": "+o.detail)
			continue
		case "nocompile":
			nocompile++
			staleNames = append(staleNames, o.m.Name+": does not compile any more: "+o.detail)
			continue
		}
		if isRef {
			if len(newReports) == 0 {
				refOK++
			} else {
				refBad++
				flaggedRefactors = append(flaggedRefactors, o.m.Name+" → "+strings.Join(newReports, "; "))
			}
			continue
		}
		hit := false
		for _, r := range newReports {
			if len(o.m.Expect) == 0 {
				hit = true
			}
			for _, e := range o.m.Expect {
				if strings.HasPrefix(r, e+" ") {
					hit = true
				}
			}
		}
		if hit {
			killed++
			if len(samples) < 6 {
				samples = append(samples, map[string]any{"mutant": o.m.Name, "file": o.m.File, "reported": newReports})
			}
		} else {
			missed++
			missedNames = append(missedNames, o.m.Name)
		}
	}
	sort.Strings(missedNames)
	sort.Strings(flaggedRefactors)
	sort.Strings(staleNames)
	run.Extra["selftest"] = map[string]any{
		"catalogue": len(ms), "mutants": mutants, "killed": killed, "selftest_missed": missedNames,
		"refactors": refactors, "refactors_silent": refOK, "refactors_flagged": flaggedRefactors,
		"stale_or_uncompilable": staleNames, "samples": samples,
		"how": "each entry applied in memory via packages.Config.Overlay and analysed in its own process; killed = a rule named in 'expect' reported a construct not reported on the unchanged tree",
	}
	_ = seed
}
