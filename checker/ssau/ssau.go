// Package ssau: small SSA / types helpers shared by the rule engines.
package ssau

import (
	"go/token"
	"go/types"
	"strings"

	"golang.org/x/tools/go/ssa"
)

// CalleeObj returns the *types.Func a call resolves to: the static callee's
// object, or the interface method for invoke-mode calls. nil for closures /
// function values / builtins.
func CalleeObj(c ssa.CallInstruction) *types.Func {
	cc := c.Common()
	if cc.IsInvoke() {
		return cc.Method
	}
	if f := cc.StaticCallee(); f != nil {
		if o, ok := f.Object().(*types.Func); ok {
			return o
		}
		// instantiation / wrapper
		if f.Origin() != nil {
			if o, ok := f.Origin().Object().(*types.Func); ok {
				return o
			}
		}
	}
	return nil
}

// Builtin returns the name of the builtin being called, or "".
func Builtin(c ssa.CallInstruction) string {
	if b, ok := c.Common().Value.(*ssa.Builtin); ok {
		return b.Name()
	}
	return ""
}

// RecvNamed returns the named type of the receiver of fn (through pointers), or nil.
func RecvNamed(fn *types.Func) *types.Named {
	if fn == nil {
		return nil
	}
	sig, ok := fn.Type().(*types.Signature)
	if !ok || sig.Recv() == nil {
		return nil
	}
	return NamedOf(sig.Recv().Type())
}

// NamedOf strips pointers and returns the named type, or nil.
func NamedOf(t types.Type) *types.Named {
	for {
		switch tt := t.(type) {
		case *types.Pointer:
			t = tt.Elem()
			continue
		case *types.Named:
			return tt
		case *types.Alias:
			t = types.Unalias(tt)
			continue
		}
		return nil
	}
}

// IsNamed reports whether t (through pointers) is the named type pkgPath.name.
// For generic types the origin's name is compared.
func IsNamed(t types.Type, pkgPath, name string) bool {
	n := NamedOf(t)
	if n == nil {
		return false
	}
	o := n.Origin().Obj()
	return o.Name() == name && o.Pkg() != nil && o.Pkg().Path() == pkgPath
}

// IsFunc reports whether fn is the package-level function pkgPath.name.
func IsFunc(fn *types.Func, pkgPath, name string) bool {
	if fn == nil || fn.Pkg() == nil {
		return false
	}
	if RecvNamed(fn) != nil {
		return false
	}
	if sig, ok := fn.Type().(*types.Signature); ok && sig.Recv() != nil {
		return false
	}
	return fn.Name() == name && fn.Pkg().Path() == pkgPath
}

// IsMethod reports whether fn is method `name` of named type pkgPath.typeName
// (value or pointer receiver; generic origin compared).
func IsMethod(fn *types.Func, pkgPath, typeName, name string) bool {
	if fn == nil || fn.Name() != name {
		return false
	}
	n := RecvNamed(fn)
	if n == nil {
		return false
	}
	o := n.Origin().Obj()
	return o.Name() == typeName && o.Pkg() != nil && o.Pkg().Path() == pkgPath
}

// IsIfaceMethod reports whether fn is method `name` declared in interface pkgPath.typeName.
func IsIfaceMethod(fn *types.Func, pkgPath, typeName, name string) bool {
	if fn == nil || fn.Name() != name || fn.Pkg() == nil {
		return false
	}
	sig, ok := fn.Type().(*types.Signature)
	if !ok || sig.Recv() == nil {
		return false
	}
	n := NamedOf(sig.Recv().Type())
	if n != nil {
		o := n.Origin().Obj()
		return o.Name() == typeName && o.Pkg() != nil && o.Pkg().Path() == pkgPath
	}
	return false
}

// Strip follows value-preserving wrappers (ChangeType, Convert between identical
// underlying types, MakeInterface, ChangeInterface, TypeAssert without comma-ok).
func Strip(v ssa.Value) ssa.Value {
	for {
		switch x := v.(type) {
		case *ssa.ChangeType:
			v = x.X
		case *ssa.MakeInterface:
			v = x.X
		case *ssa.ChangeInterface:
			v = x.X
		case *ssa.TypeAssert:
			if x.CommaOk {
				return v
			}
			v = x.X
		default:
			return v
		}
	}
}

// FieldOf returns the struct field object addressed/read by a FieldAddr or Field.
func FieldOf(v ssa.Value) *types.Var {
	switch x := v.(type) {
	case *ssa.FieldAddr:
		st := derefStruct(x.X.Type())
		if st != nil && x.Field < st.NumFields() {
			return st.Field(x.Field)
		}
	case *ssa.Field:
		st, _ := x.X.Type().Underlying().(*types.Struct)
		if st != nil && x.Field < st.NumFields() {
			return st.Field(x.Field)
		}
	}
	return nil
}

func derefStruct(t types.Type) *types.Struct {
	if p, ok := t.Underlying().(*types.Pointer); ok {
		t = p.Elem()
	}
	st, _ := t.Underlying().(*types.Struct)
	return st
}

// Loop is a natural loop.
type Loop struct {
	Header *ssa.BasicBlock
	Blocks map[*ssa.BasicBlock]bool
	Latch  []*ssa.BasicBlock
}

// Loops returns the natural loops of fn (merged per header).
func Loops(fn *ssa.Function) []*Loop {
	by := map[*ssa.BasicBlock]*Loop{}
	var order []*ssa.BasicBlock
	for _, b := range fn.Blocks {
		for _, s := range b.Succs {
			if s.Dominates(b) { // back edge b -> s
				l := by[s]
				if l == nil {
					l = &Loop{Header: s, Blocks: map[*ssa.BasicBlock]bool{s: true}}
					by[s] = l
					order = append(order, s)
				}
				l.Latch = append(l.Latch, b)
				// collect body
				stack := []*ssa.BasicBlock{b}
				for len(stack) > 0 {
					n := stack[len(stack)-1]
					stack = stack[:len(stack)-1]
					if l.Blocks[n] {
						continue
					}
					l.Blocks[n] = true
					for _, p := range n.Preds {
						stack = append(stack, p)
					}
				}
			}
		}
	}
	var out []*Loop
	for _, h := range order {
		out = append(out, by[h])
	}
	return out
}

// InnermostLoop returns the smallest loop containing b, or nil.
func InnermostLoop(loops []*Loop, b *ssa.BasicBlock) *Loop {
	var best *Loop
	for _, l := range loops {
		if l.Blocks[b] && (best == nil || len(l.Blocks) < len(best.Blocks)) {
			best = l
		}
	}
	return best
}

// Reaches reports whether there is a CFG path (≥ 0 edges) from block a to block b.
func Reaches(a, b *ssa.BasicBlock) bool {
	seen := map[*ssa.BasicBlock]bool{}
	stack := []*ssa.BasicBlock{a}
	for len(stack) > 0 {
		n := stack[len(stack)-1]
		stack = stack[:len(stack)-1]
		if n == b {
			return true
		}
		if seen[n] {
			continue
		}
		seen[n] = true
		stack = append(stack, n.Succs...)
	}
	return false
}

// ReachesAvoiding reports whether b is reachable from a's successors... precisely:
// a path from a to b (≥ 1 edge if a==b) that never enters a block in avoid
// (a itself is allowed as the start).
func ReachesAvoiding(a, b *ssa.BasicBlock, avoid map[*ssa.BasicBlock]bool) bool {
	seen := map[*ssa.BasicBlock]bool{}
	stack := append([]*ssa.BasicBlock{}, a.Succs...)
	for len(stack) > 0 {
		n := stack[len(stack)-1]
		stack = stack[:len(stack)-1]
		if avoid[n] {
			continue
		}
		if n == b {
			return true
		}
		if seen[n] {
			continue
		}
		seen[n] = true
		stack = append(stack, n.Succs...)
	}
	return false
}

// InstrIndex returns the index of instr in its block.
func InstrIndex(instr ssa.Instruction) int {
	for i, in := range instr.Block().Instrs {
		if in == instr {
			return i
		}
	}
	return -1
}

// Before reports whether instruction a executes before b on every path that
// reaches b (a dominates b; same-block order respected).
func Before(a, b ssa.Instruction) bool {
	if a.Block() == b.Block() {
		return InstrIndex(a) < InstrIndex(b)
	}
	return a.Block().Dominates(b.Block())
}

// CanFollow reports whether b may execute after a on some path.
func CanFollow(a, b ssa.Instruction) bool {
	if a.Block() == b.Block() && InstrIndex(a) < InstrIndex(b) {
		return true
	}
	for _, s := range a.Block().Succs {
		if Reaches(s, b.Block()) {
			return true
		}
	}
	return false
}

// Refs returns the referrers of v (nil-safe).
func Refs(v ssa.Value) []ssa.Instruction {
	r := v.Referrers()
	if r == nil {
		return nil
	}
	return *r
}

// ConstInt returns the integer value of a constant.
func ConstInt(v ssa.Value) (int64, bool) {
	c, ok := v.(*ssa.Const)
	if !ok || c.Value == nil {
		return 0, false
	}
	if c.Value.Kind().String() != "Int" {
		return 0, false
	}
	return c.Int64(), true
}

// ConstString returns the string value of a constant.
func ConstString(v ssa.Value) (string, bool) {
	c, ok := v.(*ssa.Const)
	if !ok || c.Value == nil || c.Value.Kind().String() != "String" {
		return "", false
	}
	s := c.Value.ExactString()
	if len(s) >= 2 && strings.HasPrefix(s, "\"") {
		// constant.StringVal would be cleaner; avoid the import churn
		if u, err := unquote(s); err == nil {
			return u, true
		}
	}
	return s, true
}

// PosOf returns the best position for an instruction (falls back to the
// enclosing function).
func PosOf(in ssa.Instruction) token.Pos {
	if in.Pos().IsValid() {
		return in.Pos()
	}
	if v, ok := in.(ssa.Value); ok {
		for _, r := range Refs(v) {
			if r.Pos().IsValid() {
				return r.Pos()
			}
		}
	}
	// neighbours
	b := in.Block()
	idx := InstrIndex(in)
	for d := 1; d < len(b.Instrs); d++ {
		for _, j := range []int{idx - d, idx + d} {
			if j >= 0 && j < len(b.Instrs) && b.Instrs[j].Pos().IsValid() {
				return b.Instrs[j].Pos()
			}
		}
	}
	return in.Parent().Pos()
}

// AllInstrs calls f for each instruction of fn.
func AllInstrs(fn *ssa.Function, f func(ssa.Instruction)) {
	for _, b := range fn.Blocks {
		for _, in := range b.Instrs {
			f(in)
		}
	}
}
