package ssau

import "strconv"

func unquote(s string) (string, error) { return strconv.Unquote(s) }
