#!/usr/bin/env python3
"""Prints the claims table of DESIGN.md section 0.2 from evidence/*.json (obligation counts and rule ids of the last run)."""
import json, glob, os, re
def key(r):
    m = re.match(r"([A-Z\-]+?)-?(\d+)?(/.*)?$", r)
    return (m.group(1), int(m.group(2) or 0), m.group(3) or "") if m else (r, 0, "")
print("| Prop | Level | Obligations (quick) | Known findings | Rules with instances on today's tree |\n|---|---|---|---|---|")
for f in sorted(glob.glob("/verif/evidence/C*.json")):
    e = json.load(open(f))
    c = e["coverage"]
    rules = sorted(c.get("per_rule", {}), key=key)
    # collapse FOO-1, FOO-2 -> FOO-1/2
    groups = {}
    for r in rules:
        m = re.match(r"(.+?)-(\d+.*)$", r)
        if m:
            groups.setdefault(m.group(1), []).append(m.group(2))
        else:
            groups.setdefault(r, [])
    txt = ", ".join(g + ("-" + "/".join(v) if v else "") for g, v in groups.items())
    print(f"| {e['property_id']} | {e['level']} | {c.get('obligations')} | {len(c.get('known_findings_seen') or [])} | {txt} |")
