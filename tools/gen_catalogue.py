#!/usr/bin/env python3
"""Turns tools/catalogue/cNN.py (python literals, easy to write multi-line fragments) into checker/mutants/cNN.json."""
import json, os, sys, importlib.util
here = os.path.dirname(os.path.abspath(__file__))
src = os.path.join(here, "catalogue")
dst = os.path.join(os.path.dirname(here), "checker", "mutants")
os.makedirs(dst, exist_ok=True)
for f in sorted(os.listdir(src)):
    if not f.endswith(".py"):
        continue
    spec = importlib.util.spec_from_file_location(f[:-3], os.path.join(src, f))
    mod = importlib.util.module_from_spec(spec)
    spec.loader.exec_module(mod)
    extra_dir = os.path.join(os.path.dirname(here), "checker", "props", f[:-3])
    entries = list(mod.ENTRIES)
    if os.path.isdir(extra_dir):
        for g in sorted(os.listdir(extra_dir)):
            if g.endswith("_mutants.json"):
                entries += json.load(open(os.path.join(extra_dir, g)))
    mod.ENTRIES = entries
    names = [e["name"] for e in mod.ENTRIES]
    assert len(names) == len(set(names)), "duplicate names in " + f
    with open(os.path.join(dst, f[:-3] + ".json"), "w") as out:
        json.dump(mod.ENTRIES, out, indent=1)
        out.write("\n")
    print(f, len(mod.ENTRIES))
