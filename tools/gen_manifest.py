#!/usr/bin/env python3
"""Regenerates /verif/MANIFEST.json from the table below (single source of truth)."""
import json, os, sys

HERE = os.path.dirname(os.path.dirname(os.path.abspath(__file__)))
ENV = "GOFLAGS=-mod=mod GOPROXY=off GOSUMDB=off GOTOOLCHAIN=local GOWORK=off"

# property -> (technique, level text, level note, design ref)
CLAIMED = {
    "C02": (
        "index-space typing over go/ssa (IDX-1..5: positions vs vertex ids vs attribute positions, kinds from type-resolved sources), attribute-family completeness and lock-step control equivalence (FAM-1/2, WF-1) over packages modeling/**",
        "Decides for every mesh operation in modeling/** and every path: attribute data and per-vertex tables are never subscripted with a position of the index array, "
        "no bare position is written as a vertex id into an index array that keeps the input's attributes (SetIndices, Mesh literals, NewMesh arrays other than the identity fill), "
        "the index array is never subscripted with a vertex id, a vertex id is only offset by a vertex count, and every function that rebuilds attribute arrays handles all four "
        "attribute families in lock-step (none skipped on a path another is handled, so output lengths agree). Necessary conditions of 'every index refers to an existing vertex / "
        "one common attribute length' that hold for every index pattern and attribute mix at once; generator index formulas, shift-table arithmetic and 'multiple of three' are not decided.",
        "go/types + go/ssa of x/tools v0.29.0; kinds are assigned only from Mesh.Indices / FloatNAttribute / AttributeLength / PrimitiveCount / Tri.P1.. / Mesh field objects; untyped integers are never judged (no false alarm, possible miss).",
        "DESIGN.md §3.2, §4 C02",
    ),
    "C03": (
        "def-use shape analysis of the 23 element-wise operations (SHAPE-1..4), permutation check of the winding flip (PERM-1), attribute-name reachability (ATTR-1), index-space typing and family lock-step (IDX, FAM, WF) on go/ssa",
        "Decides for each single-attribute transform (table of 23 functions resolved by name) that the result is the input mesh value with exactly the attribute that was read replaced, "
        "by an array of the same length whose element j is computed from element j, unconditionally for all j, using every value parameter; for the layout operations that corner "
        "gathers go through the vertex id, the flip permutes the three indices of one triangle (odd permutation, each once), all attribute families are carried in lock-step, and every "
        "attribute-name parameter reaches a data access. Holds for every mesh and parameter at once; the numeric map itself (C17), weld cells, Laplacian weights and compositions are not decided.",
        "go/types + go/ssa of x/tools v0.29.0; the table of element-wise operations is frozen in the checker (a renamed operation fails as unresolved anchor); backward slices stop at loop phis when matching element indices.",
        "DESIGN.md §3.3, §4 C03",
    ),
    "C16": (
        "SSA escape/taint analysis of per-loop variable addresses (ORD-2) over trees/, rendering/, math/geometry, modeling",
        "Decides, for every function of the spatial-index packages and on every path, that no query keeps the address of a per-loop "
        "variable in a queue item / slice / map that outlives the iteration (so the identity a query returns is the identity it measured). "
        "A structural necessary condition of 'same element identities as exhaustive search' that holds for all element sets, depths and "
        "queries at once; geometric correctness of pruning is not decided.",
        "go/types + go/ssa of x/tools v0.29.0; go.mod language version decides loop-variable semantics; callee retention summaries to depth 4, dynamic calls receiving a value that wraps the pointer are assumed to retain it.",
        "DESIGN.md §3.9, §4 C16",
    ),
}

NOT_YET = "check not built yet in this round (design in DESIGN.md section 4); not claimed until its rules run clean on the tree"
NOT_APPLICABLE = {
    "C18": "closure/winding/volume of generated index patterns needs a symbolic edge-pairing proof over all row/column/side counts plus numeric volume; no sound static rule in reach (DESIGN.md §5)",
    "C19": "sign exactness, 1-Lipschitz bound and Euclidean exactness are statements about real-valued closed forms; the only structural clause covers 2 of 10 anchored files (DESIGN.md §5)",
    "C20": "empty-circumcircle / non-overlap / winding depend on run-time geometry of the insertion history; no structural necessary condition beyond the trivial one (DESIGN.md §5)",
}

ALL = ["C%02d" % i for i in range(1, 21)]

def main():
    checks = []
    for pid in ALL:
        if pid not in CLAIMED:
            continue
        tech, text, note, ref = CLAIMED[pid]
        checks.append({
            "property_id": pid,
            "quick_cmd": f"bin/polycheck -property {pid} -tier quick",
            "thorough_cmd": f"bin/polycheck -property {pid} -tier thorough",
            "evidence_file": f"/verif/evidence/{pid}.json",
            "replay_cmd_template": "bin/polycheck -explain {path}",
            "engine": "polycheck",
            "level_claimed": {"category": "other", "text": text, "design_ref": ref},
            "level_note": note,
            "technique": "static analysis: " + tech,
        })
    na = []
    for pid in ALL:
        if pid in CLAIMED:
            continue
        na.append({"property_id": pid, "reason": NOT_APPLICABLE.get(pid, NOT_YET)})
    m = {
        "version": 1,
        "setup_cmd": f"cd /verif/checker && {ENV} go build -o /verif/bin/polycheck ./cmd/polycheck",
        "hooks": {
            "guard": "verif",
            "enable": "none needed: the checks are static analyses of /repo's source and use no instrumentation (the guard name is declared but unused)",
            "baseline_off_cmd": "cd /repo && go test -mod=mod -vet=off -count=1 -timeout 25m ./...",
            "source_commits": [],
            "add_only": True,
        },
        "engines": [{
            "name": "polycheck",
            "path": "/verif/checker",
            "serves_properties": sorted(CLAIMED),
            "kind_free_text": "custom go/packages + go/types + go/ssa analyses written for this repository; obligations keyed by rule+construct; positive controls injected as in-memory overlay files; nothing in /repo is executed",
        }],
        "checks": checks,
        "not_applicable": na,
        "notes": "All checks load /repo's working tree afresh on every run. known_findings.json lists recorded findings and fixed: entries. See DESIGN.md.",
    }
    with open(os.path.join(HERE, "MANIFEST.json"), "w") as f:
        json.dump(m, f, indent=1)
        f.write("\n")

if __name__ == "__main__":
    main()
