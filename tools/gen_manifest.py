#!/usr/bin/env python3
"""Regenerates /verif/MANIFEST.json from the table below (single source of truth)."""
import json, os, sys

HERE = os.path.dirname(os.path.dirname(os.path.abspath(__file__)))
ENV = "GOFLAGS=-mod=mod GOPROXY=off GOSUMDB=off GOTOOLCHAIN=local GOWORK=off"

# property -> (technique, level text, level note, design ref)
CLAIMED = {
    "C02": (
        "index-space typing over go/ssa (IDX-1..5: positions vs vertex ids vs attribute positions vs primitive numbers, kinds from type-resolved sources), attribute-family completeness and lock-step control equivalence (FAM-1/2, WF-1), must-pass-through of index remap loops (REMAP-1), length pairing of the append helper (FILL-1, PAIR-2), generator array-length agreement as polynomials and multiple-of-three growth (GEN-LEN, GEN-3), interval-polynomial bound of generator index formulas against the vertex count with coefficient certificate / grid witness (GEN-BOUND), keep-decision granularity against the interpreted Topology.IndexSize table (GRP-1), dominator check of operand enumeration (PAIR-3)",
        "Decides for every mesh operation in modeling/** and every path: attribute data and per-vertex tables are never subscripted with a position of the index array, "
        "no bare position is written as a vertex id into an index array that keeps the input's attributes (SetIndices, Mesh literals, NewMesh arrays other than the identity fill), "
        "the index array is never subscripted with a vertex id, a vertex id is only offset by a vertex count, every function that rebuilds attribute arrays handles all four "
        "attribute families in lock-step, index remap loops lie on every path to the hand-off of the remapped array, Append's zero-fill runs for the other mesh's vertex count with lengths paired to their maps; "
        "for the generators: per-vertex arrays of one mesh hold the same number of elements as polynomials in the parameters (make length, or elements x loop trip counts per append site), triangle index arrays grow by multiples of three, "
        "and every emitted index whose formula is a polynomial in loop counters, x % m and parameters stays in [0, vertex count) for every parameterisation the generator's guards accept (HOLDS by a non-negative-coefficient certificate, VIOLATION only with a concrete parameter witness; formulas outside the fragment carry no obligation). "
        "Necessary conditions of 'every index refers to an existing vertex / one common attribute length / indices fit the topology' for every index pattern, attribute mix and parameterisation at once; "
        "Generator index formulas that are data-dependent (triangulation, marching cubes), which vertex list an id refers to, and shift-table arithmetic are not decided.",
        "go/types + go/ssa of x/tools v0.29.0; kinds are assigned only from Mesh.Indices / FloatNAttribute / AttributeLength / PrimitiveCount / Tri.P1.. / Mesh field objects; untyped integers and unrecognised array constructions are never judged (no false alarm, possible miss).",
        "DESIGN.md 0, 3.2, 4 C02",
    ),
    "C03": (
        "def-use shape analysis of the 23 element-wise operations (SHAPE-1..4), polynomial element laws on a symbolic SSA interpreter (ELEM-1), connectivity-based operations (NEIGH-1..5), keep decision of the box crop over the 125 orderings of a point against the box (CROP-1/2), renumber-table order (RENUM-1), permutation check of the winding flip (PERM-1), attribute-name reachability (ATTR-1), shortcut and rounding rules (SHORT-1, ROUND-1), index-space typing and family lock-step (IDX, FAM, WF) on go/ssa",
        "Decides for each single-attribute transform (table resolved by name) that the result is the input mesh value with exactly the attribute that was read replaced by an array of the same length whose element j is computed from element j, "
        "unconditionally for all j, using every value parameter, AND that the stored element equals the stated map as a polynomial identity (translate v+a, scale about origin o+(v-o)*a, along normal v+n*a, rotate q v conj(q), centre v-(lo+hi)/2, normalise v/L, TRS); "
        "for flat/smooth normals and Laplacian smoothing that only the documented attribute of the input mesh is replaced, with the vertex-array length, face normals are cross(P2-P1, P3-P1) of the corners in index order, every parameter matters, neighbour lookups use the vertex being updated and every Laplacian iteration continues from the previous one; "
        "for the crop that keep(p) <=> min <= p <= max on every axis (AABB.Contains interpreted over all orderings) with p the named attribute at the element decided; that renumber tables hand out new ids in the order the attribute arrays are compacted; "
        "for the layout operations that corner gathers go through the vertex id, the flip is an odd permutation within one triangle, all attribute families are carried in lock-step, every attribute-name parameter reaches a data access, "
        "no layout operation returns its input unchanged except for empty input, and the weld hash rounds symmetrically. Holds for every mesh and parameter at once; weld cells beyond the rounding function, Laplacian weights and compositions are not decided.",
        "go/types + go/ssa of x/tools v0.29.0; the tables of operations are frozen in the checker (a renamed operation fails as unresolved anchor); real arithmetic for the element laws.",
        "DESIGN.md 0, 3.3, 4 C03",
    ),
    "C16": (
        "SSA escape/taint analysis of per-loop variable addresses (ORD-2), key homogeneity and heap-contract checks of the best-first queue, prune/accept predicate duality by term substitution, identity plumbing, bounds/conservation/visit-all rules of the octree build and queries, BVH split/hit structure",
        "Decides for the octree and BVH code, on every path: no query keeps the address of a per-loop variable (ORD-2); all queue keys come from one distance function and are the distance to the queued cell's/element's own closest point (ORD-3, KEY-1), Less/Push/Pop honour the container/heap contract (HEAP-1); "
        "every cell test is the element test with the cell bounds substituted (PRUNE-1); every index a query emits is elements[i].originalIndex assigned from the input position (IDENT-1); node bounds are one element's bounds or a box grown over every element distributed (BND-1); every element goes to exactly one bucket/leaf and every non-nil child is kept (CONS-1); "
        "every query visits all children and elements and merges their results (CHILD-1); the BVH split covers [start,end) exactly, the box test comes first, both children are consulted with the second search bounded by the first hit (BVH-1/2). "
        "Structural necessary conditions of 'same element identities as exhaustive search' for all element sets, depths and queries; geometric correctness of pruning, the slab test and tie handling are not decided.",
        "go/types + go/ssa of x/tools v0.29.0; go.mod language version decides loop-variable semantics; callee retention summaries to depth 4, dynamic calls receiving a value that wraps the pointer are assumed to retain it.",
        "DESIGN.md 3.9, 4 C16; checker/props/c16/REPORT.md",
    ),
}

CLAIMED.update({
    "C01": (
        "whole-repository ownership/aliasing analysis of mesh storage on go/ssa (field-based, interprocedural fixpoint; Fresh / Owned / Unknown classes), default-deny write rule in package modeling, hand-off (write-after-ingestion) path rule",
        "Decides that no write-capable instruction in package modeling acts on storage that may belong to an existing mesh (default-deny: anything not provably freshly allocated fails), that outside "
        "modeling no write acts on a value that can reach mesh storage (Materials() results, iterator internals, callee parameters fed with mesh storage), that no locally built array or builder-struct field "
        "is written after it was handed to a mesh, that package-level arrays handed to meshes are never written, and that modeling uses no reflect/unsafe. Because Mesh's storage fields are unexported this "
        "gives, by induction over operations, 'no public mesh operation writes an array reachable from an existing mesh' for every history and branching order - sufficient as well as necessary within the model. "
        "Material pointees reached through Mesh.Materials() are never stored into (OWN-6). Not covered: writes by user code/callbacks.",
        "go/types + go/ssa of x/tools v0.29.0; struct fields merged per field object; dynamic callees receiving mesh storage are UNDECIDED (none today); one named exception (obj.Load sets Material pointers of meshes it has just read and not yet returned).",
        "DESIGN.md 3.1, 4 C01",
    ),
    "C04": (
        "layout tiling (byte ranges per type case), enum-switch tabulation, writer/reader sibling agreement, header/body pairing, index-space typing, endianness selection - def-use and linear-form evaluation on go/ssa over formats/ply",
        "Decides structural necessary conditions of the PLY round trip for every encoding and option combination: corner texture coordinates fetched by vertex id (IDX-1), binary writers' byte ranges tile the record exactly per scalar type (LAY-1), "
        "writer and reader agree per scalar type on wire kind and 255-scaling (LAY-2/3), big-endian chosen exactly under binary_big_endian in writer and reader (LAY-5), every built reader's scalarType comes from the header (LAY-7), "
        "header list types match the bytes written (HDR-1), header counts/properties pair with the body loops (HDR-2), components in axis order (AXIS-1/3), record i to slot i (REC-1), claimed attributes = attributes a writer was added for (CLAIM-1). "
        "Value equality, precision and number formatting are not decided. One recorded known finding (LAY-7 Vector1 ASCII).",
        "go/types + go/ssa of x/tools v0.29.0; PLY scalar sizes/aliases from the published format; anchors (codec types) discovered by type/role.",
        "DESIGN.md 3.6, 4 C04; checker/props/c04/REPORT.md",
    ),
    "C05": (
        "typestate dataflow of the pending-face counter with helper/closure inlining (MAT-1), write-after-hand-off (OWN-2), token/stream/axis/corner tabulation of reader and writer, per-stream index-base rule (BASE-1), material range arithmetic (MAT-2) on go/ssa over formats/obj and formats/txt",
        "Decides for obj.ReadMesh / obj.WriteMeshes, on every path: the pending face count is stored into the last material range before every hand-off and reset per group; increments and index appends go together; no write after a slice reached a mesh; "
        "the face-token parser handles v, v/vt, v//vn, v/vt/vn with index-1; each tag arm feeds the right attribute in axis order; triangle slot s comes from field s+1; de-dup key consistency; the writer subscripts the index iterator by positions, writes id+1+exactly one base, "
        "bases start at 0 and advance per stream by the records emitted, token form selected from the attributes present, material ranges consecutive from 0 by 3*PrimitiveCount with usemtl before the faces. "
        "Necessary conditions of the round trip for every group/usemtl arrangement and attribute mix; .mtl content, n-gons, negative indices are not covered.",
        "go/types + go/ssa of x/tools v0.29.0; anchors obj.ReadMesh, obj.WriteMeshes, MeshMaterial fields, txt.Writer methods resolved by name, every other role by def-use.",
        "DESIGN.md 4 C05; checker/props/c05/REPORT.md",
    ),
    "C06": (
        "path-wise symbolic byte-effect analysis over go/ssa (polynomials with pad4 terms, loop summaries, component-type specialisation) compared with the maintained offset counter and the GLB length law; def-use/dominance rules for view/accessor pairing, index width guard, extension registration, dedup tables",
        "Decides for every Writer method, path and component type: bytes appended = amount added to bytesWritten (SYM-BYTES); each bufferView's offset is the counter before the advance and its length the advance, accessor count*components*size = view length, wire kind = componentType (VIEW-1); "
        "GLB magic/version/chunk grammar, chunk length = data+padding = 0 mod 4, total = bytes written on both paths (GLB-1); uint16 indices guarded by vertex count <= 2^16 (WIDTH-1); every extension stored is registered as used (EXT-1/2); stored indices are the positions of elements appended on the same path (REF-1, DEDUP-1); "
        "buffer length = counter, base64 over the same bytes, min/max over the written values, semantic/component tables per spec, every view starts 4-aligned (ALIGN-1; three recorded known findings). Scene shape is unbounded; values, JSON validity and equal()-based dedup semantics are not decided.",
        "go/types + go/ssa of x/tools v0.29.0; bitlib write sizes cross-checked against the dependency's method bodies on every run; glTF 2.0 tables frozen from the specification.",
        "DESIGN.md 4 C06; checker/props/c06/REPORT.md",
    ),
    "C07": (
        "wire sizes from go/types (encoding/binary semantics), symbolic byte count of the write sequence, writer/reader step-sequence agreement, exact-cover decision for affine subscripts, dependency-shape, all-paths normalisation slice (NRM-PATH) and polynomial direction check of the normals on go/ssa over formats/stl",
        "Decides exactly, for every n including 0: Header 80 + count 4 + Triangle 50 (12 float32 + uint16, field order Normal, Vertex1..3, Attribute) so stl.Write emits 84 + 50*len(Triangles) bytes on every success path and WriteMesh hands it PrimitiveCount() records; "
        "Write and Read perform the same step sequence with the same static types and binary.LittleEndian, count written = len, slice read sized by the count read; record i built from Tri(i), Vertex k from corner Pk of Position, axis a from getter a, reader stores Vertex k at 3i+k-1, identity indices over 3n (exact cover); "
        "facet normal depends on the three corner normals of the same triangle through Normalized, fallback on the three vertices through Cross, direction as polynomial identity up to a positive factor. float32 rounding and normal length are not decided.",
        "go/types + go/ssa of x/tools v0.29.0; integer overflow and floating-point rounding not modelled.",
        "DESIGN.md 4 C07; checker/props/c07/REPORT.md",
    ),
    "C08": (
        "offset-accumulation linear forms over the eight build* functions, alias/grammar table completeness, quad-fan tabulation, header-parser arm disjointness, claim bookkeeping, error discipline, package-level storage write/observe analysis of the decoder (STATE-1) - def-use and CFG rules on go/ssa over formats/ply readers",
        "Decides for every header layout in the stated grammar (not sampled headers): the byte offset captured for a component is the sum of the sizes of all preceding properties and is advanced exactly once per property on every path (LAY-4); ASCII columns are ordinals; "
        "both spec spellings of all eight types map to the right size, every scalar/count/list combination of the grammar has a case in v1..v4 x ASCII/binary (LAY-3); component x is read at xOffset into slot X (AXIS-1); a vector group's type is first-wins with offset reset on mismatch (LAY-9); "
        "quads yield the fan (0,1,2),(0,2,3) for indices and texcoords in both readers (LAY-8); comment/obj_info/blank/CR handling and property-to-last-element attachment (HDRP-1); exactly one scalar reader per unclaimed property (CLAIM-2/3); record i to slot i (REC-1); no decode error dropped (IO-3). "
        "Numeric conversion details are not decided. One recorded known finding (LAY-7).",
        "go/types + go/ssa of x/tools v0.29.0; PLY type table from the published format.",
        "DESIGN.md 3.6, 4 C08; checker/props/c08/REPORT.md",
    ),
    "C09": (
        "exhaustive evaluation of the 256-case table and edge tables read from the type-checked source against a corner model extracted from SSA (layout, sample provenance, case bits, polarity, vertex formula, emission order); rational-function identity for the interpolant; axis-tag, stride/exact-cover, padding, cross-block, allocator, merge/weld rules and backward slices of skip decisions (CELL-1) on go/ssa",
        "Decides exhaustively over all 256 sign configurations x 6 faces and 12 edges, with the corner numbering read from the code rather than assumed: each edge joins corners differing in one axis; every case's triangles use exactly the sign-changing edges, no directed edge twice, every unmatched directed edge lies on one cube face, "
        "the segments on a face are a function of that face's four signs and the opposite face gives the reversed set (any two adjacent cells close against each other), orientation is consistent with the strict polarity the code uses for all eight corners, existence bit k is 1<<k, the per-corner lists agree with the edge tables, the tables are never written. "
        "Also: the emitted vertex is the affine interpolant between the two corner samples of the same edge entry; x/y/z are never swapped; the linear index is a bijection onto the S^3 cells allocated; the domain is padded by one cell on all axes; the cross-block corner fetch resets each axis with itself, exactly on the last cell, at the right block; block coordinates use floor; all blocks are merged and welded on the marched attribute. "
        "Table-level closedness and orientation are decided exhaustively; geometric closeness, weld precision and degenerate triangles at samples equal to the threshold are not.",
        "go/types + go/ssa of x/tools v0.29.0; real arithmetic for the interpolant identity.",
        "DESIGN.md 3.8, 4 C09; checker/props/c09/REPORT.md",
    ),
    "C10": (
        "polynomial identities of the worker ranges (telescoping partition) over go/ssa, context-sensitive lockset over worker/coordinator regions, wait-group/channel discipline, sequential-vs-parallel operand agreement, axis tags",
        "Decides for every element count, pool size >= 1 and schedule: the seven *ParallelWithPoolSize methods' worker ranges partition [0,total) exactly (lo(0)=0, hi(i)=lo(i+1), last hi=total, width floor(total/workers)), the callback gets (i, element i) and results land in dst[i], "
        "Add dominates go / Done in worker / Wait dominates every use of the result, workers store only to local memory or dst[i]; shortcuts and wrappers delegate with the same arguments; in marching/canvas.go every field written by workers (or written by the coordinator and touched by workers) is accessed only under its mutex, "
        "jobs are closed after the last send and the symbolic produced count equals the drained count, job operands and the per-block call equal the sequential ones, sample positions are (x,y,z). Partition exactness and lock discipline hold for all inputs and schedules; float accumulation order and the user callback are out of scope.",
        "go/types + go/ssa of x/tools v0.29.0; Go memory model beyond mutex/channel/wait-group happens-before not modelled.",
        "DESIGN.md 3.4, 3.7, 4 C10; checker/props/c10/REPORT.md",
    ),
    "C11": (
        "cache-protocol typestate: who-may-write, path automata and dominance over the generic bodies of nodes.Struct / ValueNode / parameters, map-order taint (ORD-1), type-level field-shape check of all node data structs",
        "Decides the induction step of 'a read returns what evaluation from scratch returns' as local invariants on every path: version bumped exactly once per execution and only there; Process() precedes increment, snapshot and flag reset; every load of the cached value is dominated by Outdated()==false or process(); "
        "Outdated returns true on nil snapshot, on the re-wire flag, and for every dependency whose Version() differs at the same index or whose State() is not Processed; SetInput always sets the flag; snapshot and comparison enumerate through the same order-deterministic function; "
        "every node-output reference of the 108 node data types is a shape the reflection helpers can see; Process methods read inputs only through Value(). Graph shape and history are unbounded; nodes that are not functions of their inputs and Alert subscriptions are not covered.",
        "go/types + go/ssa of x/tools v0.29.0; refutil's reflection writes modelled by a three-entry table.",
        "DESIGN.md 3.9, 3.10, 4 C11; checker/props/c11/REPORT.md",
    ),
    "C12": (
        "field-coverage analysis of ToJSON/FromJSON pairs with a local object model, provenance calculus (canonical access paths) for decode/encode completeness, map-order taint to the encoder sink over everything reachable from App.Schema()",
        "Decides: every schema field of every CustomGraphSerialization pair is assigned from receiver state on a feasible path and read back into the same field, every exported receiver field survives; ApplyAppSchema creates and registers every node, replays one SetInput per dependency with that dependency's name/id/port, "
        "sets every producer, feeds every serialisable node its own Data, returns every error, no early exit; EncodeToAppSchema visits every node and producer and emits one dependency per Dependencies() element; nothing map-ordered reaches the encoder (byte determinism); every schema.App header field is carried both ways. "
        "Order of array inputs after reload, artifact content, id assignment after deletions and numeric JSON round trips are not decided.",
        "go/types + go/ssa of x/tools v0.29.0; encoding/json emits maps key-sorted (documented).",
        "DESIGN.md 3.10, 4 C12; checker/props/c12/REPORT.md",
    ),
    "C13": (
        "context-sensitive lockset over the three entry points of graph.Instance, lock/unlock pairing on every exit, who-may-call over the CHA (quick) / VTA (thorough) call graph, no-copy type check",
        "Decides that UpdateParameter, ParameterData and Artifact each perform all evaluation-state accesses (ApplyMessage, ToMessage, producer Value(), version counter, node table lookup) inside one critical section of the same mutex field of the same receiver, released on every return and panic, "
        "that the Instance is never copied, and that no other non-test library call site of the evaluating calls exists outside a held region. One critical section per operation on one mutex is the standard sufficient condition for linearizability with real-time order and gives race freedom among the three, "
        "for any number of clients and any interleaving. Artifact immutability after unlock and the other server endpoints are not covered.",
        "go/types + go/ssa + callgraph (cha/vta) of x/tools v0.29.0.",
        "DESIGN.md 3.7, 4 C13; checker/props/c13/REPORT.md",
    ),
    "C14": (
        "path-sensitive exploration of the SSA CFG from the exhausted outcome of every input call (nil-ness abstract state), error-use analysis, loop progress analysis, pre-sized-array exit analysis, token-count guards and line-freshness of token containers (TOK-4) - over formats/ply, stl, spz, splat, pts decoders",
        "Decides, with each read call an obligation (cut positions do not appear in the argument): Scan() in a loop is tested (IO-1); from 'this call came up short' no path reaches a nil-error return except after the record counter reached the declared count or, for the count-less .splat stream, with nothing taken from the failed read (IO-2); "
        "no error of an input call or decode helper is dropped (IO-3); no reading loop can return to its head without consuming input or advancing its counter (IO-4); raw Read's n is used (IO-5); arrays pre-sized from a declared count are returned only when the filling loop left through its counter and every counted record stored an element (PRE-1/2); "
        "tokens of a body line are length-tested before being indexed (TOK-1). For the listed formats this is the structural content of the property for all cut positions at once; allocation size, header-text truncation that still parses and gzip framing are not covered.",
        "go/types + go/ssa of x/tools v0.29.0; io.ReadFull/binary.Read EOF contract and non-nil fmt.Errorf/errors.New assumed.",
        "DESIGN.md 3.5, 4 C14; checker/props/c14/REPORT.md",
    ),
    "C17": (
        "symbolic interpretation of go/ssa with polynomial / rational-function normal forms (big.Rat), callee inlining into the vector dependency, one-symbolic-iteration loop summaries; dataflow shadow (SYM-DEP); min/max normal forms for boxes; axis-tag dataflow; contradiction rule on degeneracy guards (NORM-1)",
        "Decides as polynomial identities over the reals (floating-point rounding outside): Matrix4x4.Add entry-wise, Multiply row-by-column, Identity, MulPosition affine action and its agreement with Multiply, Determinant = Leibniz, a*Inverse(a) = I = Inverse(a)*a cross-multiplied by det; "
        "Quaternion.Multiply = Hamilton product, Rotate = q v conj(q), |Rotate(q,v)|^2 = |q|^4 |v|^2, Rotate(p*q, v) = Rotate(p, Rotate(q, v)), identity laws, Normalize, RotationTo on its general branch modulo unit inputs; TRS.Transform = R(S*v)+T; "
        "Mesh.Rotate/Translate/Scale/ApplyTRS apply the underlying transform to Position element-wise over the full range with their parameter; AABB laws stated through Min()/Max() (EncapsulatePoint/Bounds, ClosestPoint clamp, Contains/Intersects as the six interval tests, NewAABBFromPoints running min/max) and no comparison/min/max pairs different axes. "
        "Not covered: rounding, RotationTo's (anti)parallel branches, FromTheta (trigonometry).",
        "go/types + go/ssa of x/tools v0.29.0; real arithmetic (no overflow / NaN / rounding); sqrt uninterpreted with sqrt(p)^2 = p.",
        "DESIGN.md 3.4, 4 C17; checker/props/c17/REPORT.md",
    ),
    "C15": (
        "byte-range tiling and writer/reader agreement of the 32-byte .splat record, inverse-function chain pairing, exact-cover decision for affine plane subscripts with symbolic strides, plane order, sign-extension and dequantisation constants, PLY splat property agreement, interval analysis of every float-to-byte narrowing of the writer (QRANGE-1) - on go/ssa",
        "Decides for every count, SH degree and fractional-bit count: the .splat writer emits 32 bytes per splat whose ranges the reader's constant offsets tile exactly, per attribute and component in axis order, with the reader's value map the reversed chain of inverses of the writer's (Exp/Log, *c//c, +c/-c with equal constants, logistic pair); "
        "the SPZ header is 16 bytes in the published order, planes are read in the published order, plane sizes 9N/6N, N, 3N, 3N, 3N, 3*N*shDim, every output array is make(..., NumPoints), each plane subscript covers its plane exactly once (per-point SH stride 3*shDim), 24-bit little-endian assembly with sign test on bit 23 and mask 0xff000000, "
        "SH dimension table {0,3,8,15}, published dequantisation maps, half-float bit fields; the PLY splat export's property names/types match the default reader's. Layout exactness, not value tolerances.",
        "go/types + go/ssa of x/tools v0.29.0; SPZ/splat layouts frozen from the published formats.",
        "DESIGN.md 4 C15; checker/props/c15/REPORT.md",
    ),
    "C19": (
        "symbolic interpretation of go/ssa (constructor, then the returned closure on a symbolic sample point) with polynomial / rational normal forms; path x reference-case comparison against the published closed forms; loop-carried accumulator recognition for the n-ary operators; parameter-reach dataflow",
        "Decides a necessary structural clause, not sign / Lipschitz / exactness themselves (those are properties of the published closed forms, the trusted base): every primitive in math/sdf (Sphere, Box, RoundedBox, Line, Plane, RoundedCylinder, RoundedCone) computes, on every path, exactly the published closed form (Quilez) as a polynomial / rational identity in its parameters and the sample point (SDF-FORM); "
        "Union / Intersect are min / max over exactly all fields (fixed-arity paths and the n-ary accumulator loop from field 0 or +-Inf, step 1, no early exit), Subtract = max(a, -b), Translate(f,t)(p) = f(p - t) (SDF-OP); every parameter component and all three sample components reach the result (SDF-DEP). "
        "RoundedBox: both published round-box forms (offset by r, or shrunk by r then offset) are accepted - the property does not fix the size convention. Not covered: rounding/NaN, degenerate segments, non-unit plane normals, VarryingThicknessLine.",
        "go/types + go/ssa of x/tools v0.29.0; real arithmetic; sqrt/abs/min/max with their algebraic laws only; published forms transcribed in checker/props/c19/refs.go.",
        "DESIGN.md 4 C19, 5; checker/props/c19/REPORT.md",
    ),
    "C20": (
        "one symbolic run of the triangulation pipeline on go/ssa (roles of the working map, point list, inserted point, collected list, polygon and enclosing vertices discovered from its events), polynomial identities for the in-circle and orientation determinants (C17 engine), truth tables over the finite id orderings for the hole boundary and the enclosing-vertex removal, interval certificate with concrete witness for the enclosing triangle",
        "Decides structural necessary conditions, not the Delaunay property itself (empty circumcircles / non-overlap for every input depend on run-time geometry): a triangle is collected exactly when orient x incircleDet > 0 as a polynomial identity in the eight coordinates (DEL-INCIRCLE); every triangle stored while filling a hole has one fixed sign of the 2x2 orientation determinant (DEL-ORIENT); "
        "an edge reaches the hole polygon exactly when no other collected triangle has it in either direction, every collected triangle is deleted, one triangle is stored per polygon edge (DEL-HOLE, 144 id orderings); the starting triangle is the appended enclosing vertices, strictly contains the input's bounding box for every positive size, and a triangle is deleted at the end exactly when one of its ids is >= len(input) (DEL-SUPER); "
        "every input id is inserted and point i of the working list is input point i (DEL-INSERT); Position[i] = (S[i].x, 0, S[i].y) for the final version S of the list the ids refer to, and the index array holds the three ids of every triangle (DEL-VERT); the bounding box reads both coordinates of every point (DEL-DEP). "
        "Not covered: the geometric outcome itself, floating-point robustness, the constraint-edge part of ConstrainedBowyerWatson beyond DEL-VERT.",
        "go/types + go/ssa of x/tools v0.29.0; real arithmetic; name anchors BowyerWatson / ConstrainedBowyerWatson only.",
        "DESIGN.md 4 C20, 5; checker/props/c20/REPORT.md",
    ),
    "C18": (
        "constant-table evaluation from the type-checked source (edge pairing of the welded cube's index table), signed-volume polynomial identity and normal/face-normal dot products with symbolic width/height/depth, symbolic interpretation of the sphere / hemisphere / cylinder / circle generators with sin and cos as uninterpreted atoms (single relation sin^2+cos^2=1), cyclic-successor recognition of ring loops (C17 polynomial engine)",
        "Decides the welded cube completely - every directed edge of its constant index table occurs exactly once with its reverse exactly once (CUBE-CLOSED), the signed volume equals 6 W H D as a polynomial identity (CUBE-VOLUME), supplied normals have a positive dot product with every incident face normal (CUBE-NORMAL) - and, for the parametrised solids, structural necessary conditions only: "
        "every supplied normal of UVSphere / Hemisphere.UV is a positive multiple of its own vertex position and every vertex lies on the sphere |p|^2 = r^2 (NORMAL-RADIAL); cylinder side normals are parallel to and point away from the axis like the position at the same index, arrays completely filled (NORMAL-CYL); the circle cap has one constant unit normal perpendicular to every stored position (CAP-NORMAL); "
        "in every loop that emits triangles along a ring each counter-dependent index is base+i or base+(i+1) mod n with n the iteration count and the ring size, counter from 0 step 1 without early exit, so each ring vertex starts exactly one ring edge and ends exactly one (SEAM, no induction over rows). "
        "NOT decided (stated limit, DESIGN.md 5): pairing across rows, orientation of strips and fans, cap orientation (needs numeric sin/cos values), the numeric action of rotations (face orientation of the quad cube, the cylinder's seam column), volumes of sphere / hemisphere / cylinder.",
        "go/types + go/ssa of x/tools v0.29.0; real arithmetic; sin/cos uninterpreted.",
        "DESIGN.md 5; checker/props/c18/REPORT.md",
    ),
})

# rules added after the rounds of seeded defects / refactorings (appended to the level note of each claim)
TECH_ADD = {"C03": "; origin analysis of the point-cloud index array (identity fill, PC-1)"}

ADDED = {
 "C01": "Added in round 2: OWN-6 (no store through a *Material obtained from a mesh), OWN-7 (no Mesh assigned through a *Mesh handle the function did not create); results of external generic calls are classified (slices.Grow & co. alias their argument; an unclassified non-parameter operand is UNDECIDED). Added in the last rounds: OWN-6 follows by-value copies of a material that still hold its pointers; OWN-2 traces hand-offs through the returns of analysed callees and through maps kept in package variables (a slice kept in a package variable is not the caller's own: appending to it and handing it to a mesh is reported; adding an entry to the cache is not).",
 "C02": "Added in round 2: GEN-BOUND is path-sensitive (one candidate interval per phi edge, counters narrowed by == / != guards, case split over boolean parameters, enclosing loops assumed to run) with interprocedural slice lengths; FAM-3 (the four families' new arrays are made with one length); GEN-LEN conditional growth (an array that can skip an element inside its loop next to a sibling with a fixed count); IDX-6 (a vertex id is never offset by a constant). Added in the last rounds: ORD-2 over the mesh operations and generators (no closure or pointer keeps a per-loop variable beyond its iteration under the pre-1.22 loop semantics go.mod selects), ITER-1 (no accessor iterator is drained with Next() across repetitions without Reset; zero instances on the tree, positive control on every run), FILL-1 through function literals with a floor of two fills, GEN-LEN for arrays grown by a function literal through a captured variable (elements per call x calls). Added in round 6: GRP-1 (an operation that hands input.SetIndices(x) back keeps or drops whole primitives: the indices one keep decision appends, times the trip counts of the counted loops below the decision, are a multiple of the group size of every polygon-list topology the operation admits - all of them unless a used RequireTopology dominates the hand-off; group sizes are read by interpreting Topology.IndexSize; found and fixed: the four attribute filters, /repo 9279a92), PAIR-3 (every return of the attribute-combining helper of Append is dominated by a range over each of the two operands' attribute maps, or lies behind len(operand) == 0). Stated limit: a generator whose vertex rings and index rows range over different slices of one path (seed C02-r61) - the ring count comes from a callee's result length and a phi of two slices, which GEN-BOUND does not follow.",
 "C03": "Added in round 2: NEIGH-5/6, CROP-1/2, RENUM-1, DEGEN-1 (weld keeps a triangle exactly when its three rounded corners differ: five equality patterns), SPLIT-1 (the accumulator a primitive is appended to is current for the range cursor on every path), AREA-1 (RemoveNullFaces3D keeps exactly area > minArea with area = 1/2 |cross| as an identity), SHAPE-4 refuses spawned element loops whose partition is not decided, IDX-6. Added in the last rounds: NEIGH-7 (the vertex neighbour table links per topology: list topologies advance by their group size and link inside one group, strip / loop topologies link consecutive indices), FILL-1 (shared with C02), neighbour operations that delegate to a shared implementation are judged through it with hand-over obligations, CROP-1/2 follow keep helpers. Added in round 6: PC-1 (the index array of the mesh ToPointCloud builds is the identity over AttributeLength on every path: made with that length and filled with i at i, or grown from empty by appending the loop counter, same-package helpers followed; the receiver's own index buffer reaching the field is reported). NEIGH-8 (a division by VertexLUT.Count(v) - the neighbour mean of the smoothing operations - is dominated by the non-zero edge of a test of that same count: a vertex without neighbours stays where it is; found and fixed: Laplacian smoothing turned unreferenced vertices into NaN, /repo 4845882), SPLIT-2 (the material cursor of the split advances in a loop nested in the primitive loop, or is the counter of a per-range loop - never by one conditional step per primitive, which does not skip an empty range; found and fixed, /repo 87df0fb). IDX: a position plus an untyped counter stays a position, a counter compared as counter + invariant offset with a length is typed by it, IDX-2 follows index arrays returned by same-package helpers.",
 "C04": "Added in round 2: UNW-1, CFG-1, NAME-1 (property names travel unchanged in both directions), LAY-4 for every reader builder (offset = sum of the sizes of the preceding properties), REC-1 generalised to batched reads (slot = number of records consumed before this one), SENT-1. Added in the last round: CLAIM-1 identifies the claimed set by role through struct fields and same-package helpers.",
 "C05": "Added in round 2: FORM-1 through selection helpers, ORD-2 over formats/obj, MAT-3 (material identity per name), ENTRY-1 (txt.Writer record typestate), SINK-1 (one sink once a buffering wrapper exists, flushed before return), NAME-2 (names travel whole), MAT-4 (the material range list is positional: patched in place or copied entry for entry). Added in the last round: TOK-R summarises same-package helpers with parameter binding of the token piece.",
 "C06": "Added in round 2: DEDUP-2, REF-2 (every index slot receives a position of the array it refers to, never a loop counter over input data), MINMAX-1 start values and comparison form, INST-1 (instancing extension emitted exactly for n >= 1 with every instance's TRS), EQ-1 (de-dup equality methods compare every field that reaches the document and distinguish nil on both sides: truth table per pointer field). Added in the last rounds: MODE-1 (a primitive's mode follows the mesh topology on cache-hit and cache-miss paths alike), TRS-1 (node translation / rotation / scale reach the document through copies only), INST-2 (a flag that omits an instancing attribute is monotone over the instance loop); REF-2 follows helper returns, EQ-1 executes generic helpers.",
 "C07": "Added in round 2: HDR-FREE (no branch, allocation size, error or panic depends on the 80 header bytes), LATCH-1 (the normals flag is monotone over the record loop and raised by any stored normal), ATTR-OPAQUE (nothing depends on the attribute word), record stores execute in every iteration. Added in round 6: NRM-PATH (every data path from a corner-normal gather to a stored component of the record's normal crosses a length-normalising operation - the all-paths counterpart of NRM-1; fast paths and early helper returns that hand a corner normal or the plain mean to the record are reported; a shortcut guarded by a length test is UNDECIDED).",
 "C08": "Added in round 2: LAY-10, NAME-1, batched REC-1, LAY-4 for every builder (shared with C04), SENT-1 (offset sentinel -1 and found-tests that accept offset 0), LINE-1 (every readLine path strips CR), BYTES-1 (payload bytes reach the decoder untouched), TOKSEP-1 (ASCII rows split on runs of white space), UNW-1. Added in the last round: CLAIM-2 summarises same-package membership helpers. Added in round 6: STATE-1 (decoding one file is a function of its bytes only: no formats/ply function reachable from the reader entry points writes storage of a package-level variable that the decoder also observes - buffers filled by io.ReadFull and read back, memo maps, reused builders; package tables that are only read hold).",
 "C09": "Added in round 2: DEGEN-1 on the stitch pass, FIELD-TREE/IDX/ALL/CAP (member tables are subscripted by the ids the spatial query returns, every hit is folded, no capture of a per-loop table), FIELD-OUT (finite non-inside default outside all members; link to SYM-ALG), RANGE-1 and SYM-STRIDE follow pure in-package helpers. Added in the last rounds: DOM-1 (declared field domains: sizes non-negative by construction, point boxes expanded by at least the radius), COMB-1 (the fold over the members containing the point visits every member and folds with min), SDF-REF (marching calls only sdf functions C19 decides); per-corner arrays followed one level into a single-site helper. Added in round 6: CELL-1 (every cell of every block reaches the case-table walk: a skip decision - return, continue, break, a skipped call of the block function in a caller - may depend on geometry, block-map lookups, the missing-neighbour flag and the cell's own eight corner samples only, never on other stored samples of the block: the last layer of a block takes its far corners from neighbouring blocks).",
 "C10": "Added in round 2: CONC-7 (Add/Done pairing: no path from wg.Add to the loop continuation avoids the go statement), SEQ-4 (the parallel variant accumulates into canvas cells exactly as the sequential sibling), SEQ-2/3 inline straight-line helpers. Added in the last round: SYM-PART total-non-negative (the partitioned total is >= 0 on every path; found and fixed: PrimitiveCount -1 on an empty line mesh, /repo a5970ab).",
 "C11": "Added in round 2: NODE-10 (every non-error return of a mutator lies behind a version bump), NODE-11 (decode into a fresh target, commit after success), REFL-2 (reflective enumeration stores a distinct allocation per key). Added in the last round: unexported identifiers are resolved by role from exported anchors. Added in round 6: NODE-12 (every test Outdated() makes on a dependency is relative to the last execution: its State() is compared with the state remembered for that dependency at the same position, recorded from State() when the node executes - not with the constant Processed, which a dependency the processing never reads can never satisfy; found and fixed: a node with an unread input re-executed on every read, /repo bd7daf3). NODE-4 accepts the remembered-state form; the remembered versions are resolved as the slice of plain int.",
 "C12": "Added in round 2: PERSIST-6/7 (edit operations), PERSIST-8 (array-input order: enumeration in index order, numeric or index-free sort key, loader appends), PERSIST-9 (payload types self-delimiting — two known findings in the jbtf dependency), PERSIST-10 (ids unique), PERSIST-11 (no stale cache of the wiring), PERSIST-12 (decode applies what was saved whatever its value), PERSIST-13 (metadata round trip is the identity), PERSIST-14 (ToJSON is computed from the live fields, or every setter invalidates the memo), SAVE-1/2/3 (file replaced with the schema bytes, Save always writes, fresh encoder per save). Added in the last round: unexported identifiers are resolved by role from exported anchors.",
 "C13": "Added in round 2: FRESH-1 on both sides (ApplyMessage does not alias the message, ToMessage returns fresh storage), CONC-5 (unlock deferred before any call that can run node code), CONC-6 (one snapshot per response), CONC-8 (a response is built from this request's own entry-point call), CONC-9 (no go statement in the evaluation call tree of package nodes), VIS-1 (every successful ApplyMessage stores into what Value() reads), VIS-2 (every success path of the POST handler has called UpdateParameter with this request's body), CONC-10 (a node is marked up to date only after Process returned: no such store before the call or in a deferred function), CONC-11 (per-request output state: no response written through a long-lived writer).",
 "C14": "Added in round 2: PRE-3 (the completeness check compares the record counter), CNT-1 (a declared count is never clamped to the data available), REC-WHOLE (count-less record streams decode only windows proven to lie within the bytes read). Added in the last rounds: TOK-2 (a missing token is an error, never a default), TOK-3 (arrays of a counted line-record reader are stored on every accepted line or on none; found and fixed: pts optional columns, /repo b9a5c65). Added in round 6: TOK-4 (the token list a record's values are parsed from is produced from this scanner line only - a strings.Fields / Split result, a slice allocated in the same loop iteration, an append onto an emptied base or a re-slice with a computed bound; a token container allocated outside the line loop that is length-tested, read or re-sliced to its full length inside the loop is reported).",
 "C15": "Added in round 2: HALF-2, SH-COUNT, DEQ-2 (rotation real part = sqrt(max(0, 1 - |xyz|^2)) as an identity with the clamp), REC-ALL (every record read yields one splat, whatever its bytes). Added in the last round: PLANE-1 follows the planes through Read's same-package call tree, roles by carrier field. Added in round 6: QRANGE-1 (interval arithmetic over the SSA expression of every float-to-byte conversion of the .splat writer and its same-package helpers: constants, + - x /, math.Exp >= 0, Max / Min clamps, components of a Clamp(lo, hi) vector, helper results; attribute values are unbounded; the operand must lie in [0, 256) - found and fixed: the four rotation conversions wrapped 1.0 to byte 0, /repo 9142e2c).",
 "C16": "Added in round 2: IDX-1/3/6 on the primitive scopes (tri.go, line.go, point.go), ATTR-2 (trees are scoped over the attribute parameter), CONS-1 on array-typed bucket tables, IDENT-2 (element i of the tree is primitive i), ATTR-3 (the Scope call tree reads attribute data through the attribute parameter only), BOX-RAY (the ray/box slab test implies or refutes max(tmin, near) < min(tmax, far) on every path; d = 0 / NaN / rounding not decided). Added in the last round: IDENT-1 accumulator-parameter form (outside callers start it empty, the recursion continues the running result).",
 "C17": "Added in round 2: FromTheta = (cos t/2, sin t/2 * a/|a|) with sin/cos uninterpreted (single relation sin^2+cos^2=1), partition identities LO(0)=0, HI(w)=LO(w+1), HI(K-1)=len for spawned element loops. Added in round 6: NORM-1 (a contradiction rule over the transform packages: a vector whose Length()/LengthSquared() is compared with a constant below 1 as a degeneracy guard is not itself a Normalized() result - such a length is 1 or NaN, so the guarded fallback can never be taken; found and fixed: RotationTo for opposite directions along X returned NaN, /repo d335782). RotationTo's antiparallel branch is no longer wholly uncovered: its guard is decided, the axis arithmetic is not.",
 "C19": "",
 "C18": "Added after the first seeds: QUAD-DIMS (each face of the quad cube is sized by the two dimensions perpendicular to its axis and offset by half the third), LATITUDE (angle arguments: longitude step x ring size = 2 pi, latitude step x (rings + 1) = pi), CAP-FLIP-AXIS (a flipped cap is a half turn about the axis that carries cos in ring and rim), SPHERE-RADIUS (every vertex the sphere constructors emit satisfies |p|^2 = r^2). Added in the last round: helpers of modeling/primitives are interpreted with parameter binding while a generator is decided.",
 "C20": "Added after the first seeds: DEL-INPUT (the input slice is never permuted or written before the positions are read), DEL-SAME-POINTS (the predicates run on the input coordinates up to a uniform similarity). Added in the last round: DEL-SUPER-FOLD (the bounding-box fold is a true running min / max for all orderings including the +-Inf start), DEL-STATE (no package-level mutable state in the call tree), DEL-ORIENT-DIFF (every product in the orientation and in-circle predicates multiplies translation-invariant operands: decides the algebraic form, not the rounding error).",
}

NOT_YET = "check not built yet in this round (design in DESIGN.md section 4); not claimed until its rules run clean on the tree"
NOT_APPLICABLE = {
}

ALL = ["C%02d" % i for i in range(1, 21)]

def main():
    checks = []
    for pid in ALL:
        if pid not in CLAIMED:
            continue
        tech, text, note, ref = CLAIMED[pid]
        checks.append({
            "property_id": pid,
            "quick_cmd": f"bin/polycheck -property {pid} -tier quick",
            "thorough_cmd": f"bin/polycheck -property {pid} -tier thorough",
            "evidence_file": f"/verif/evidence/{pid}.json",
            "replay_cmd_template": "bin/polycheck -explain {path}",
            "engine": "polycheck",
            "level_claimed": {"category": "other", "text": (text + " " + ADDED.get(pid, "")).strip(), "design_ref": ref},
            "level_note": note,
            "technique": "static analysis: " + tech + TECH_ADD.get(pid, ""),
        })
    na = []
    for pid in ALL:
        if pid in CLAIMED:
            continue
        na.append({"property_id": pid, "reason": NOT_APPLICABLE.get(pid, NOT_YET)})
    m = {
        "version": 1,
        "setup_cmd": f"cd /verif/checker && {ENV} go build -o /verif/bin/polycheck ./cmd/polycheck",
        "hooks": {
            "guard": "verif",
            "enable": "none needed: the checks are static analyses of /repo's source and use no instrumentation (the guard name is declared but unused)",
            "baseline_off_cmd": "cd /repo && go test -mod=mod -vet=off -count=1 -timeout 25m ./...",
            "source_commits": [],
            "add_only": True,
        },
        "engines": [{
            "name": "polycheck",
            "path": "/verif/checker",
            "serves_properties": sorted(CLAIMED),
            "kind_free_text": "custom go/packages + go/types + go/ssa analyses written for this repository; obligations keyed by rule+construct; positive controls injected as in-memory overlay files; nothing in /repo is executed",
        }],
        "checks": checks,
        "not_applicable": na,
        "notes": "All checks load /repo's working tree afresh on every run. known_findings.json lists recorded findings and fixed: entries. See DESIGN.md.",
    }
    with open(os.path.join(HERE, "MANIFEST.json"), "w") as f:
        json.dump(m, f, indent=1)
        f.write("\n")

if __name__ == "__main__":
    main()
