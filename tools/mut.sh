#!/bin/bash
# usage: mut.sh <worktree> <binary> <property> <name> <file> <python-expr transforming s>   (edits file in worktree, builds, runs check, reverts)
# Dev helper for trying source mutants in a scratch worktree; not part of any registered check.
export GOFLAGS=-mod=mod GOPROXY=off GOSUMDB=off GOTOOLCHAIN=local; unset GOWORK
WT=$1; BIN=$2; PROP=$3; NAME=$4; FILE=$5; EXPR=$6
cd $WT || exit 2
git checkout -q -- . 
python3 - "$FILE" "$EXPR" <<'PY'
import sys,re
f,expr=sys.argv[1],sys.argv[2]
s=open(f).read()
t=eval(expr)
if t==s:
    print("MUTANT DID NOT CHANGE SOURCE"); sys.exit(3)
open(f,'w').write(t)
PY
[ $? -eq 0 ] || { echo "[$NAME] edit failed"; exit 3; }
if ! go build ./... 2>/tmp/mut_build_err.$$; then echo "[$NAME] DOES NOT COMPILE"; head -5 /tmp/mut_build_err.$$; rm -f /tmp/mut_build_err.$$; git checkout -q -- .; exit 4; fi
rm -f /tmp/mut_build_err.$$
OUT=$($BIN -property $PROP -repo $WT -verif /tmp/verif_mut_$PROP 2>&1)
RC=$?
echo "[$NAME] exit=$RC"
echo "$OUT" | grep -E "^(VIOLATION rule|UNDECIDED|CHECK-FAILED)" | cut -c1-260
git checkout -q -- .
