#!/usr/bin/env python3
"""Evaluates behaviour-preserving refactorings from independent sub-agents against every claimed check
(development tool; nothing is applied to /repo).

  refcheck.py import /tmp/ref_out/A/3      -> /verif/refactors/A-3-slug/{patch.diff,meta.json}
  refcheck.py check /verif/refactors/A-3-slug -> applies the patch in a scratch worktree of /repo HEAD, runs
        bin/polycheck for every claimed property against it; any VIOLATION / UNDECIDED / CHECK-FAILED line is a
        FALSE ALARM of that check (the known findings of the unchanged tree are expected and ignored).
"""
import json, os, re, shutil, subprocess, sys
ENV = dict(os.environ, GOFLAGS="-mod=mod", GOPROXY="off", GOSUMDB="off", GOTOOLCHAIN="local"); ENV.pop("GOWORK", None)
V = "/verif"

def sh(cmd, cwd=None):
    p = subprocess.run(cmd, shell=True, cwd=cwd, env=ENV, stdout=subprocess.PIPE, stderr=subprocess.STDOUT, text=True)
    return p.returncode, p.stdout

def do_import(src):
    meta = json.load(open(os.path.join(src, "meta.json")))
    g = os.path.basename(os.path.dirname(os.path.normpath(src))); k = os.path.basename(os.path.normpath(src))
    slug = re.sub(r"[^a-z0-9]+", "-", meta.get("title", "refactor").lower()).strip("-")[:40]
    dst = os.path.join(V, "refactors", f"{g}-{k}-{slug}")
    os.makedirs(dst, exist_ok=True)
    shutil.copy(os.path.join(src, "patch.diff"), dst)
    json.dump(meta, open(os.path.join(dst, "meta.json"), "w"), indent=1)
    print("imported", dst)

def check(d):
    d = os.path.abspath(d)
    meta = json.load(open(os.path.join(d, "meta.json")))
    if meta.get("superseded"):
        print(os.path.basename(d), "SUPERSEDED (skipped)"); return
    wt = os.environ.get("SEED_WT", "/tmp/wt_ref")
    sh(f"git -C /repo worktree remove --force {wt}")
    rc, out = sh(f"git -C /repo worktree add --detach {wt} HEAD"); assert rc == 0, out
    res = {}
    try:
        rc, out = sh(f"git apply {d}/patch.diff", cwd=wt)
        if rc != 0:
            meta["applies"] = False; meta["apply_out"] = out[-300:]
            print(os.path.basename(d), "PATCH DOES NOT APPLY"); return
        meta["applies"] = True
        if not os.environ.get("REF_AUTO"):  # partial re-check: the checks' own loader type-checks what they analyse
            rc, out = sh("go build ./...", cwd=wt); meta["builds"] = rc == 0
        ids = [c["property_id"] for c in json.load(open(V + "/MANIFEST.json"))["checks"]]
        if os.environ.get("REF_AUTO"):  # only the changed checks whose anchored packages the patch touches
            touched = re.findall(r"^diff --git a/(\S+)", open(f"{d}/patch.diff").read(), re.M)
            scope = {"C02": ["modeling/"], "C03": ["modeling/"], "C07": ["formats/stl"], "C08": ["formats/ply"], "C09": ["modeling/marching", "math/sdf"],
                     "C14": ["formats/ply", "formats/stl", "formats/spz", "formats/splat", "formats/pts"], "C15": ["formats/splat", "formats/spz", "formats/ply"], "C17": ["math/", "modeling/mesh.go"],
                     "C04": ["formats/ply", "modeling/"], "C05": ["formats/obj", "modeling/"], "C16": ["trees", "modeling/", "rendering", "math/geometry"], "C01": ["modeling/"]}
            only = [pid for pid, pre in scope.items() if any(t.startswith(x) for t in touched for x in pre)]
            ids = [i for i in ids if i in only]
            res = {k: v for k, v in meta.get("false_alarms", {}).items() if k not in only}
            meta["last_partial_recheck"] = only
        elif os.environ.get("REF_PROPS"):  # re-check only the checks that changed; the other verdicts of the last full run stand
            only = os.environ["REF_PROPS"].split()
            ids = [i for i in ids if i in only]
            res = {k: v for k, v in meta.get("false_alarms", {}).items() if k not in only}
        vdir = "/tmp/verif_ref_" + os.path.basename(wt); os.makedirs(vdir, exist_ok=True)
        shutil.copy(V + "/known_findings.json", vdir)
        for pid in ids:
            rc, out = sh(f"{V}/bin/polycheck -property {pid} -repo {wt} -verif {vdir}")
            reports = [l[:260] for l in out.splitlines() if l.startswith(("VIOLATION rule", "UNDECIDED rule", "CHECK-FAILED"))]
            if rc != 0 or reports:
                res[pid] = {"exit": rc, "reports": reports[:8]}
    finally:
        sh(f"git -C /repo worktree remove --force {wt}"); sh("git -C /repo worktree prune")
    meta["false_alarms"] = res
    json.dump(meta, open(os.path.join(d, "meta.json"), "w"), indent=1)
    print(os.path.basename(d), "SILENT" if not res else "FALSE ALARM: " + ", ".join(res))
    for pid, r in res.items():
        for l in r["reports"][:3]:
            print("    ", pid, l[:230])

if __name__ == "__main__":
    a = sys.argv[1:]
    {"import": do_import, "check": check}[a[0]](a[1])
