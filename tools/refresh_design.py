#!/usr/bin/env python3
"""Regenerates the generated tables of DESIGN.md section 0 (claims from evidence/*.json, seeds from seeded/*/meta.json)
inside tools/asbuilt_section.md (between the BEGIN/END markers) and re-inserts that section into DESIGN.md."""
import json, glob, os, re, subprocess

V = "/verif"

def rule_key(r):
    m = re.match(r"([A-Z\-]+?)-?(\d+)?(/.*)?$", r)
    return (m.group(1), int(m.group(2) or 0), m.group(3) or "") if m else (r, 0, "")

def claims():
    rows = ["| Prop | Level | Obligations (committed evidence: thorough tier, three configurations where the check has a matrix) | Known findings | Rules with instances on today's tree |", "|---|---|---|---|---|"]
    for f in sorted(glob.glob(V + "/evidence/C*.json")):
        e = json.load(open(f)); c = e["coverage"]
        groups = {}
        for r in sorted(c.get("per_rule", {}), key=rule_key):
            m = re.match(r"(.+?)-(\d+.*)$", r)
            if m: groups.setdefault(m.group(1), []).append(m.group(2))
            else: groups.setdefault(r, [])
        txt = ", ".join(g + ("-" + "/".join(v) if v else "") for g, v in groups.items())
        rows.append(f"| {e['property_id']} | {e['level']} | {c.get('obligations')} | {len(c.get('known_findings_seen') or [])} | {txt} |")
    m = json.load(open(V + "/MANIFEST.json"))
    for na in m.get("not_applicable", []):
        rows.append(f"| {na['property_id']} | n/a | — | — | {na['reason']} |")
    return "\n".join(rows)

def seeds():
    rows = ["| Seed | Change (needs something specific to manifest — see seeded/<dir>/meta.json) | Reported by |", "|---|---|---|"]
    tot = caught = 0
    per_round = {}
    for d in sorted(glob.glob(V + "/seeded/C*")):
        m = json.load(open(os.path.join(d, "meta.json")))
        pid = m["property"]; k = os.path.basename(d).split("-")[1]
        rnd = k[1] if k.startswith("r") and len(k) > 2 and k[1] in "23456" else "1"
        title = (m.get("title", "") or "").replace("|", "/")[:150]
        conf = m.get("confirmation", {}).get("confirmed")
        pc = m.get("polycheck", {}).get(pid, {})
        rules = sorted({re.search(r"rule=(\S+)", r).group(1) for r in pc.get("reports", []) if "rule=" in r})
        if not conf:
            continue
        tot += 1
        a = per_round.setdefault(rnd, [0, 0]); a[0] += 1
        if pc.get("exit") == 0:
            rep = "**missed**" + (" — " + m["limit_note"] if m.get("limit_note") else "")
        else:
            caught += 1; a[1] += 1
            rep = ", ".join(rules) or "check failed"
            if m.get("first_missed"):
                rep += " (missed by the version of the check it was first run against; rule added)"
        rows.append(f"| {pid}-{k} | {title} | {rep} |")
    summary = f"{tot} confirmed seeds, {caught} reported by the current checks (" + ", ".join(f"round {r}: {v[1]}/{v[0]}" for r, v in sorted(per_round.items())) + ")."
    return "\n".join(rows) + "\n\n" + summary

def sub(text, tag, body):
    b, e = f"<!-- {tag}-BEGIN -->", f"<!-- {tag}-END -->"
    assert b in text and e in text, tag
    return text[: text.index(b) + len(b)] + "\n" + body + "\n" + text[text.index(e):]

p = V + "/tools/asbuilt_section.md"
s = open(p).read()
s = sub(s, "CLAIMS-TABLE", claims())
s = sub(s, "SEEDS-TABLE", seeds())
open(p, "w").write(s)
d = open(V + "/DESIGN.md").read()
a = d.index("## 0. As built")
b = d.index("---\n\n## 1. Stance")
d = d[:a] + s.rstrip("\n") + "\n\n" + d[b:]
open(V + "/DESIGN.md", "w").write(d)
print("DESIGN.md section 0 refreshed")
