#!/usr/bin/env python3
"""Import, confirm and evaluate seeded defects (development tool; not part of any registered check).

  seed.py import /tmp/mut_out/C02/1 [slug]   -> /verif/seeded/C02-1-slug/{patch.diff,demo/,meta.json}
  seed.py confirm /verif/seeded/C02-1-slug   -> in a scratch worktree of /repo HEAD: demo passes without the change,
                                               patch applies + builds, demo fails with it, full suite passes with it
  seed.py check /verif/seeded/C02-1-slug     -> apply in a scratch worktree and run bin/polycheck for the property (and
                                               any extra properties given) against it; records which rules report
Nothing is ever applied to /repo itself. The scratch worktree (/tmp/wt_seed_<pid>) is removed afterwards.
"""
import json, os, re, shutil, subprocess, sys, glob

ENV = dict(os.environ, GOFLAGS="-mod=mod", GOPROXY="off", GOSUMDB="off", GOTOOLCHAIN="local")
ENV.pop("GOWORK", None)
VERIF = "/verif"


def sh(cmd, cwd=None, timeout=1800):
    p = subprocess.run(cmd, shell=True, cwd=cwd, env=ENV, stdout=subprocess.PIPE, stderr=subprocess.STDOUT, text=True, timeout=timeout)
    return p.returncode, p.stdout


def worktree():
    wt = os.environ.get("SEED_WT", "/tmp/wt_seed")  # fixed path: the Go build cache is keyed by path, a new path per run filled the disk once
    sh("git -C /repo worktree remove --force %s" % wt)
    rc, out = sh("git -C /repo worktree add --detach %s HEAD" % wt)
    assert rc == 0, out
    return wt


def drop(wt):
    sh("git -C /repo worktree remove --force %s" % wt)
    sh("git -C /repo worktree prune")


def do_import(src, slug=None):
    meta = json.load(open(os.path.join(src, "meta.json")))
    pid = meta["property"]
    k = os.path.basename(os.path.normpath(src))
    slug = slug or re.sub(r"[^a-z0-9]+", "-", meta.get("title", "seed").lower()).strip("-")[:40]
    dst = os.path.join(VERIF, "seeded", "%s-%s-%s" % (pid, k, slug))
    os.makedirs(dst, exist_ok=True)
    shutil.copy(os.path.join(src, "patch.diff"), dst)
    if os.path.isdir(os.path.join(dst, "demo")):
        shutil.rmtree(os.path.join(dst, "demo"))
    shutil.copytree(os.path.join(src, "demo"), os.path.join(dst, "demo"))
    # derive demo placement from RUN.md
    run = open(os.path.join(src, "demo", "RUN.md")).read()
    wtname = None
    m = re.search(r"worktree add --detach (\S+)", run)
    if m:
        wtname = m.group(1)
    copies = []
    for m in re.finditer(r"^\s*cp (?:-r )?(\S+) (\S+)\s*$", run, re.M):
        s, d = m.group(1), m.group(2)
        if wtname and d.startswith(wtname):
            copies.append([os.path.relpath(s, os.path.join(src, "demo")) if s.startswith(src) else os.path.basename(s), os.path.relpath(d, wtname)])
    cmd = None
    for m in re.finditer(r"(go (?:test|run) [^\n`]+)", run):
        cmd = m.group(1).strip()
        cmd = re.sub(r"\s+(#.*|2>&1.*|>.*)$", "", cmd)
        if cmd.count(")") > cmd.count("("):
            cmd = cmd.rstrip(")").strip()
        break
    if not copies and cmd:
        # fallback: every *_test.go of the demo goes into the package the demo command names
        m = re.search(r"\./([\w/\-.]+?)/?(?:\s|$)", cmd)
        if m:
            pkg = m.group(1).rstrip("/.")
            for f in sorted(os.listdir(os.path.join(src, "demo"))):
                if f.endswith("_test.go"):
                    copies.append([f, pkg])
    meta["demo_copies"] = copies
    meta["demo_cmd"] = cmd
    meta["imported_from"] = src
    json.dump(meta, open(os.path.join(dst, "meta.json"), "w"), indent=1)
    print("imported", dst, "copies", copies, "cmd", cmd)
    return dst


def place_demo(seed, wt, meta):
    for s, d in meta.get("demo_copies", []):
        srcp = os.path.join(seed, "demo", s)
        dstp = os.path.join(wt, d)
        if dstp.endswith("/") or os.path.isdir(dstp) or not dstp.endswith(".go"):
            dstp = os.path.join(dstp, os.path.basename(s))
        os.makedirs(os.path.dirname(dstp), exist_ok=True)
        if os.path.isdir(srcp):
            shutil.copytree(srcp, dstp, dirs_exist_ok=True)
        else:
            shutil.copy(srcp, dstp)


def confirm(seed):
    seed = os.path.abspath(seed)
    meta = json.load(open(os.path.join(seed, "meta.json")))
    wt = worktree()
    res = {}
    try:
        place_demo(seed, wt, meta)
        cmd = meta["demo_cmd"]
        assert cmd, "no demo_cmd in meta.json"
        rc, out = sh(cmd, cwd=wt)
        res["demo_without_change"] = "pass" if rc == 0 else "FAIL"
        res["demo_without_tail"] = out[-400:]
        rc, out = sh("git apply %s" % os.path.join(seed, "patch.diff"), cwd=wt)
        res["patch_applies"] = rc == 0
        if rc != 0:
            res["apply_out"] = out[-400:]
        rc, out = sh("go build ./...", cwd=wt)
        res["builds"] = rc == 0
        rc, out = sh(cmd, cwd=wt)
        res["demo_with_change"] = "pass" if rc == 0 else "FAIL"
        res["demo_with_tail"] = out[-600:]
        # full suite without the demo files
        for s, d in meta.get("demo_copies", []):
            p = os.path.join(wt, d)
            if not d.endswith(".go"):
                p = os.path.join(p, os.path.basename(s))
            if os.path.exists(p) and p.startswith(wt + "/"):
                if os.path.isdir(p):
                    shutil.rmtree(p)
                else:
                    os.remove(p)
        rc, out = sh("go test -vet=off -count=1 ./... 2>&1 | grep -v 'no test files'", cwd=wt)
        bad = [l for l in out.splitlines() if l.startswith("FAIL") or l.startswith("---") or "panic:" in l]
        res["full_suite_with_change"] = "pass" if not bad else "FAIL: " + "; ".join(bad[:5])
    finally:
        drop(wt)
    ok = res.get("demo_without_change") == "pass" and res.get("patch_applies") and res.get("builds") and res.get("demo_with_change") == "FAIL" and res.get("full_suite_with_change") == "pass"
    res["confirmed"] = bool(ok)
    meta["confirmation"] = res
    json.dump(meta, open(os.path.join(seed, "meta.json"), "w"), indent=1)
    print(os.path.basename(seed), "CONFIRMED" if ok else "NOT CONFIRMED", {k: v for k, v in res.items() if not k.endswith("_tail")})
    return ok


def check(seed, extra_props=()):
    seed = os.path.abspath(seed)
    meta = json.load(open(os.path.join(seed, "meta.json")))
    wt = worktree()
    out_all = {}
    try:
        rc, out = sh("git apply %s" % os.path.join(seed, "patch.diff"), cwd=wt)
        assert rc == 0, out
        for pid in [meta["property"], *extra_props]:
            vdir = "/tmp/verif_seed_%s_%s" % (pid, os.path.basename(wt))
            os.makedirs(vdir, exist_ok=True)
            shutil.copy(os.path.join(VERIF, "known_findings.json"), vdir)
            rc, out = sh("%s/bin/polycheck -property %s -repo %s -verif %s" % (VERIF, pid, wt, vdir))
            reports = [l[:300] for l in out.splitlines() if l.startswith(("VIOLATION rule", "UNDECIDED rule", "CHECK-FAILED"))]
            out_all[pid] = {"exit": rc, "reports": reports}
            print(os.path.basename(seed), pid, "exit", rc)
            for r in reports[:6]:
                print("   ", r[:220])
    finally:
        drop(wt)
    meta["polycheck"] = out_all
    meta["detected"] = out_all[meta["property"]]["exit"] != 0
    json.dump(meta, open(os.path.join(seed, "meta.json"), "w"), indent=1)
    return meta["detected"]


if __name__ == "__main__":
    a = sys.argv[1:]
    if a[0] == "import":
        do_import(a[1], a[2] if len(a) > 2 else None)
    elif a[0] == "confirm":
        sys.exit(0 if confirm(a[1]) else 1)
    elif a[0] == "check":
        sys.exit(0 if check(a[1], a[2:]) else 1)
