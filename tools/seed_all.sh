#!/bin/bash
# Re-check every seeded defect against the current bin/polycheck in 3 lanes (scratch worktrees under /tmp, removed afterwards).
cd /verif
ls -d seeded/*/ | sed 's,/$,,' > /tmp/seed_list.txt
split -n l/${SEED_LANES:-3} /tmp/seed_list.txt /tmp/seed_lane_
i=0
for f in /tmp/seed_lane_*; do
  lane=$(basename $f)
  ( while read s; do SEED_WT=/tmp/wt_$lane python3 tools/seed.py check $s 2>&1 | grep -E "exit [01]$" ; done < $f > /tmp/$lane.out ) &
done
wait
cat /tmp/seed_lane_*.out | sort
rm -f /tmp/seed_lane_* /tmp/seed_list.txt
