#!/usr/bin/env python3
"""Records in seeded/*/meta.json which seeds were missed by the version of the check they were first run against
(first_missed) and the stated limit for seeds that stay missed (limit_note). Hand-maintained list; development tool."""
import json, glob, os
FIRST_MISSED = """C02-1 C02-2 C02-3 C03-1 C03-2 C03-3 C04-1 C04-3 C05-1 C05-2 C06-3 C08-2 C12-1 C12-2 C12-3 C13-3 C15-2 C15-3
C01-r21 C02-r24 C03-r21 C03-r22 C03-r23 C03-r24 C04-r21 C04-r22 C04-r24 C05-r24 C06-r22 C06-r23 C07-r22 C07-r23 C09-r22 C09-r23
C11-r23 C11-r24 C12-r21 C12-r22 C13-r21 C13-r22 C13-r24 C14-r21 C14-r23 C14-r24 C15-r23 C16-r23 C17-r22 C17-r24
C01-r31 C02-r32 C03-r32 C03-r34 C16-r34 C06-r32 C06-r33 C11-r33 C14-r34 C18-1 C18-2 C18-4 C20-1 C20-2
C01-r42 C02-r41 C02-r42 C04-r33 C05-r31 C05-r32 C05-r33 C08-r31 C08-r32 C08-r33 C08-r34 C09-r34 C10-r31 C10-r34 C12-r31 C12-r32 C12-r33 C12-r34 C13-r31 C13-r33 C13-r34
C16-r42 C16-r43 C07-r33 C15-r33 C20-r21 C16-r41
C18-r22 C08-r43 C05-r43 C13-r42 C13-r43 C13-r44 C12-r44
C20-r32 C20-r33 C20-r34 C14-r41 C06-r41 C06-r43 C06-r44 C09-r41 C09-r42 C09-r44 C16-r53 C16-r54
C03-r51 C03-r52 C01-r51 C01-r54 C02-r51 C02-r53 C02-r54
C02-r62 C03-r61 C07-r61 C08-r62 C09-r61 C14-r61""".split()
LIMITS = {
 "C02-r61": "the vertex rings of extrude.makeShape range over a conditionally shortened copy of the path while the index rows range over the path itself: the ring count is a phi of two slice lengths multiplied by the length of a callee's result (ProjectFace), which GEN-BOUND does not follow (its witnesses range over parameters and their lengths only); comparing the two loops' sources by SSA identity would also fire on correct variants, so no rule was added",
 "C09-r44": "a wrong radius inside sdf.RoundedCone: the distance functions are C19's clause (SDF-FORM reports this seed); C09 carries the dependency obligation SDF-REF (marching may only call sdf functions C19 decides)",
 "C16-r53": "the law of geometry.AABB.EncapsulateBounds is C17's clause (BOX-1 reports this seed); C16's BND-1 takes the box operations as given",
 "C16-r54": "the narrowing protocol of a consumer of TraverseIntersectingRay (rendering/mesh.go, outside the property's anchors): whether a caller may rely on *max being shared between sibling cells is not a structural clause of the index",
 "C02-r22": "which vertex list an id refers to is not tracked by C02's index-space typing; the same change is reported by C20's DEL-VERT",
 "C02-r33": "storage aliasing of Append's index buffer is C01's clause (OWN-1 reports this seed); C02 judges the mesh returned, not later histories",
 "C16-r33": "which of two algebraically close dot-product tests closes the point-in-triangle predicate is geometry of exact-arithmetic edge cases; numeric, declined",
 "C03-r43": "the property does not fix how face normals are weighted before they are summed (the code's own comment says normalize); not a structural clause",
 "C02-r44": "an optional attribute attached under a data-dependent flag (len(uvs) > 0 instead of a latched validity flag): the meaning of the flag is not tracked; stated limit of GEN-LEN",
 "C16-2": "IEEE signed-zero behaviour of the slab test is numeric; declined clause",
}
for d in sorted(glob.glob("/verif/seeded/C*")):
    pid, k = os.path.basename(d).split("-")[:2]
    key = f"{pid}-{k}"
    p = os.path.join(d, "meta.json")
    m = json.load(open(p))
    m["first_missed"] = key in FIRST_MISSED
    if key in LIMITS:
        m["limit_note"] = LIMITS[key]
    json.dump(m, open(p, "w"), indent=1)
