#!/usr/bin/env python3
"""Prints the markdown table of seeded defects from seeded/*/meta.json (for DESIGN.md section 0.5)."""
import json, glob, os, re
rows = []
for d in sorted(glob.glob("/verif/seeded/C*")):
    m = json.load(open(os.path.join(d, "meta.json")))
    pid = m["property"]
    k = os.path.basename(d).split("-")[1]
    title = m.get("title", "")[:110]
    needs = (m.get("needs_to_manifest", "") or "").replace("\n", " ")[:150]
    conf = m.get("confirmation", {}).get("confirmed")
    pc = m.get("polycheck", {}).get(pid, {})
    rules = sorted({re.search(r"rule=(\S+)", r).group(1) for r in pc.get("reports", []) if "rule=" in r})
    caught = "**missed**" if pc.get("exit") == 0 else ", ".join(rules) or ("check failed" if pc else "not run")
    rows.append(f"| {pid}-{k} | {title} | {needs} | {'yes' if conf else 'NO'} | {caught} |")
print("| Seed | Change | Needs to manifest | Confirmed | Reported by |\n|---|---|---|---|---|")
print("\n".join(rows))
